"""S1 substrate: the real engine on the real sqlite3, deterministic, observable, steerable.

* ``VConn``        sqlite3.Connection subclass installed through the ConnectionManager: virtual SQL
                   clock, commit hook (crash injection), statement hook (thread scheduler).
* ``World``        one database file + store/queue/processor ("a worker process"); ``restart()``
                   drops every in-memory object like a process kill does.
* ``VTask``        the task implementation used by all workloads; behaviour comes from the durable
                   stage context, executions are appended to the harness ledger.
* audit triggers   AFTER UPDATE OF status on the three state tables, INSERT/DELETE on the queue
                   tables: rows vanish with a rolled-back transaction, so only durable changes are
                   observed (C06 observe_at).
"""

from __future__ import annotations

import json
import os
import shutil
import sqlite3
import tempfile
import threading
from typing import Any, Callable

from vf import stubs

stubs.install()

from stabilize import (  # noqa: E402
    Orchestrator,
    QueueProcessor,
    SqliteQueue,
    SqliteWorkflowStore,
    StageExecution,
    Task,
    TaskExecution,
    TaskRegistry,
    TaskResult,
    Workflow,
)
from stabilize.errors import TransientError  # noqa: E402
from stabilize.models.stage import JoinType  # noqa: E402
from stabilize.models.status import WorkflowStatus  # noqa: E402
from stabilize.persistence import connection as _connmod  # noqa: E402
from stabilize.persistence.connection import ConnectionManager, SingletonMeta  # noqa: E402
from stabilize.queue.processor.config import QueueProcessorConfig  # noqa: E402


class Crash(BaseException):
    """Process kill.  BaseException so that no ``except Exception`` of the engine sees it."""


class Hooks:
    def __init__(self) -> None:
        self._tl = threading.local()
        self.reset()

    @property
    def ctx(self) -> str:  # per worker thread: which message type this thread is handling
        return getattr(self._tl, "ctx", "")

    @ctx.setter
    def ctx(self, v: str) -> None:
        self._tl.ctx = v

    def reset(self) -> None:
        self.dead = False
        self.commits = 0  # number of durable commits seen (in_transaction at commit time)
        self.on_commit: Callable[[Any], None] | None = None
        self.on_statement: Callable[[Any, str], None] | None = None
        self.statements = 0
        self.ctx = ""  # message type being handled (exposed to triggers as vf_ctx())
        self.handler_base = 0
        self.last_sql = ""


HOOKS = Hooks()
_REAL_SQLITE_CONNECT = sqlite3.connect


class VConn(sqlite3.Connection):
    def __init__(self, *a: Any, **k: Any) -> None:
        super().__init__(*a, **k)
        self.create_function("datetime", -1, stubs.sql_datetime)
        self.create_function("vf_ctx", 0, lambda: HOOKS.ctx)

    def execute(self, sql: str, *params: Any):  # type: ignore[override]
        if HOOKS.dead:
            raise Crash()
        HOOKS.statements += 1
        HOOKS.last_sql = " ".join(sql.split()[:3])
        if HOOKS.on_statement is not None:
            HOOKS.on_statement(self, sql)
        return super().execute(sql, *params)

    def commit(self) -> None:  # type: ignore[override]
        if HOOKS.dead:
            raise Crash()
        if self.in_transaction:
            HOOKS.commits += 1
            if HOOKS.on_commit is not None:
                HOOKS.on_commit(self)
            if HOOKS.on_statement is not None:
                HOOKS.on_statement(self, "COMMIT")
            super().commit()
            if HOOKS.on_statement is not None and not HOOKS.dead:
                HOOKS.on_statement(self, "AFTER_COMMIT")  # a pre-emption point: the commit is durable, the handler has not returned yet
            return
        super().commit()

    def rollback(self) -> None:  # type: ignore[override]
        if HOOKS.on_statement is not None and self.in_transaction and not HOOKS.dead:
            HOOKS.on_statement(self, "ROLLBACK")
        super().rollback()


def commit_site() -> str:
    """Where the commit being executed sits: '<MessageType>.commit<i>' inside a handler, else the
    statement that opened the transaction (poll claim, ack, ...)."""
    if HOOKS.ctx:
        return "%s.commit%d" % (HOOKS.ctx, HOOKS.commits - HOOKS.handler_base)
    return "outside:" + HOOKS.last_sql.replace(" ", "_")


class _SqliteShim:
    """Stands in for the ``sqlite3`` module inside stabilize.persistence.connection only."""

    def __getattr__(self, name: str) -> Any:
        return getattr(sqlite3, name)

    @staticmethod
    def connect(path: str, *a: Any, **k: Any):
        k.setdefault("factory", VConn)
        return _REAL_SQLITE_CONNECT(path, *a, **k)


_connmod.sqlite3 = _SqliteShim()  # type: ignore[attr-defined]


# ----------------------------------------------------------------------------- direct task exec
def _direct_exec(task, stage, timeout, message, bulkhead_manager, circuit_factory, process_executor=None):
    """Stub of execute_with_timeout (bulkhead thread pool + circuit breaker): runs the task inline.
    Time-outs and bulkhead rejection are outside every claim (DESIGN 2.3)."""
    return task.execute(stage)


import stabilize.handlers.run_task.handler as _rth  # noqa: E402

_rth.execute_with_timeout = _direct_exec


# ----------------------------------------------------------------------------- ledger + task
class Ledger:
    def __init__(self) -> None:
        self.entries: list[dict[str, Any]] = []
        self.seq = 0

    def add(self, **kw: Any) -> dict[str, Any]:
        self.seq += 1
        kw["n"] = self.seq
        self.entries.append(kw)
        return kw

    def count(self, ref: str, task: str | None = None) -> int:
        return sum(1 for e in self.entries if e["ref"] == ref and (task is None or e["task"] == task))


_CURRENT_WORLD: "World | None" = None

_HIDE = ("_jump_history", "_inherited_keys")


def _ctx_view(ctx: dict[str, Any]) -> dict[str, Any]:
    return {k: v for k, v in ctx.items() if k not in _HIDE}


class VTask(Task):
    """Behaviour is read from ``stage.context['vf'][task_name]`` (durable), so that it survives a
    restart exactly like a user task's configuration does."""

    def execute(self, stage: StageExecution) -> TaskResult:
        w = _CURRENT_WORLD
        assert w is not None
        n0 = w.ledger.seq
        res = self._execute(stage)
        if w.ledger.seq == n0 + 1:
            w.ledger.entries[-1]["out"] = dict(getattr(res, "outputs", None) or {})
        return res

    def _execute(self, stage: StageExecution) -> TaskResult:
        w = _CURRENT_WORLD
        assert w is not None
        tm = next((t for t in stage.tasks if t.status == WorkflowStatus.RUNNING), None)
        tname = tm.name if tm is not None else "?"
        beh = (stage.context.get("vf") or {}).get(tname) or {"kind": "ok"}
        kind = beh.get("kind", "ok")
        ref = stage.ref_id
        if ref not in w.refs:
            ref = "built:" + stage.name  # a synthetic stage created at plan time: its ref_id is a fresh ULID, its name is stable
        if stage.execution is not None and stage.execution.id != w.workflow_id:
            ref = "twin:" + ref  # a task of the second live execution in the same database
        nth = w.ledger.count(ref, tname)  # executions of this task so far (harness memory)
        entry = w.ledger.add(
            ref=ref,
            task=tname,
            kind=kind,
            ctx=json.loads(json.dumps(_ctx_view(stage.context), default=str)),
            durable_stage=w.peek_stage_status(stage.id),
            durable_task=w.peek_task_status(tm.id) if tm is not None else None,
            commits=HOOKS.commits,
            audit_seq=w.peek_audit_seq(),
            canceled=w.peek_canceled(stage.execution.id),
        )
        if w.on_task is not None:
            w.on_task(entry)
        it = int(stage.context.get("_jump_count", stage.context.get("iter", 0)) or 0)
        entry["iter"] = it
        out = {"k": ref, "l": [ref], "o_" + ref: it, "iter": it}
        if kind == "ok":
            return TaskResult.success(outputs=out)
        if kind == "terminal":
            return TaskResult.terminal("vf terminal")
        if kind == "raise":
            raise ValueError("vf permanent failure raised by the task body")
        if kind == "poll":
            polls = int(stage.context.get("polls_" + tname, 0))
            if polls < int(beh.get("n", 2)):
                return TaskResult.running(context={"polls_" + tname: polls + 1})
            return TaskResult.success(outputs=out)
        if kind == "transient":
            n = int(beh.get("n", 1))
            if beh.get("ctx") == "list":
                # progress kept in a container taken from the context and mutated in place
                items = stage.context.get("done_" + tname, [])
                entry["progress_seen"] = len(items)
                if len(items) < n:
                    items.append("item%d" % len(items))
                    raise TransientError("vf transient", context_update={"done_" + tname: items})
            elif beh.get("ctx"):
                done = int(stage.context.get("progress_" + tname, 0))
                entry["progress_seen"] = done
                if done < n:
                    raise TransientError("vf transient", context_update={"progress_" + tname: done + 1})
            else:
                if nth < n:
                    raise TransientError("vf transient")
            return TaskResult.success(outputs=out)
        if kind == "jump_at":
            # jumps to the target only in the loop iteration whose jump count equals ``at`` (else succeeds)
            jumps = int(stage.context.get("_jump_count", 0) or 0)
            if jumps == int(beh.get("at", 1)) and not stage.context.get("jumped_" + tname):
                return TaskResult.jump_to(beh["target"], context={"from_jump_at": jumps}, outputs=out)
            return TaskResult.success(outputs=out)
        if kind == "jump":
            times = int(beh.get("times", 1))
            jumps = int(stage.context.get("_jump_count", 0) or 0)
            if jumps < times:
                return TaskResult.jump_to(beh["target"], context={"from_jump": jumps + 1}, outputs=out)
            return TaskResult.success(outputs=out)
        if kind == "suspend":
            if stage.context.get("_signal_name"):
                entry["signal"] = [stage.context.get("_signal_name"), stage.context.get("_signal_data")]
                want = int(beh.get("signals", 1))
                got = int(stage.context.get("sig_seen_" + tname, 0)) + 1
                if got >= want:
                    return TaskResult.success(outputs={**out, "sig": stage.context.get("_signal_data")})
                return TaskResult.suspend(context={"sig_seen_" + tname: got, "_signal_name": ""})
            return TaskResult.suspend()
        raise AssertionError("unknown vf task kind " + str(kind))


# ----------------------------------------------------------------------------- the world
_AUDIT_DDL = """
CREATE TABLE IF NOT EXISTS vf_audit(seq INTEGER PRIMARY KEY AUTOINCREMENT, tbl TEXT, id TEXT,
    old TEXT, new TEXT, ctx TEXT);
CREATE TRIGGER IF NOT EXISTS vf_a_stage AFTER UPDATE OF status ON stage_executions
  WHEN OLD.status IS NOT NEW.status
  BEGIN INSERT INTO vf_audit(tbl,id,old,new,ctx) VALUES('stage',NEW.id,OLD.status,NEW.status,vf_ctx()); END;
CREATE TRIGGER IF NOT EXISTS vf_a_task AFTER UPDATE OF status ON task_executions
  WHEN OLD.status IS NOT NEW.status
  BEGIN INSERT INTO vf_audit(tbl,id,old,new,ctx) VALUES('task',NEW.id,OLD.status,NEW.status,vf_ctx()); END;
CREATE TRIGGER IF NOT EXISTS vf_a_task_ins AFTER INSERT ON task_executions
  BEGIN INSERT INTO vf_audit(tbl,id,old,new,ctx) VALUES('task_ins',NEW.id,NULL,NEW.status,vf_ctx()); END;
CREATE TRIGGER IF NOT EXISTS vf_a_stage_ins AFTER INSERT ON stage_executions
  BEGIN INSERT INTO vf_audit(tbl,id,old,new,ctx) VALUES('stage_ins',NEW.id,NULL,NEW.status,vf_ctx()); END;
CREATE TRIGGER IF NOT EXISTS vf_a_wf AFTER UPDATE OF status ON pipeline_executions
  WHEN OLD.status IS NOT NEW.status
  BEGIN INSERT INTO vf_audit(tbl,id,old,new,ctx) VALUES('workflow',NEW.id,OLD.status,NEW.status,vf_ctx()); END;
CREATE TRIGGER IF NOT EXISTS vf_a_cancel AFTER UPDATE OF is_canceled ON pipeline_executions
  WHEN OLD.is_canceled IS NOT NEW.is_canceled
  BEGIN INSERT INTO vf_audit(tbl,id,old,new,ctx) VALUES('cancel',NEW.id,OLD.is_canceled,NEW.is_canceled,vf_ctx()); END;
CREATE TABLE IF NOT EXISTS vf_qlog(seq INTEGER PRIMARY KEY AUTOINCREMENT, op TEXT, q TEXT, id INTEGER,
    mtype TEXT, payload TEXT, ctx TEXT);
CREATE TRIGGER IF NOT EXISTS vf_q_ins AFTER INSERT ON queue_messages
  BEGIN INSERT INTO vf_qlog(op,q,id,mtype,payload,ctx) VALUES('ins','q',NEW.id,NEW.message_type,NEW.payload,vf_ctx()); END;
CREATE TRIGGER IF NOT EXISTS vf_q_del AFTER DELETE ON queue_messages
  BEGIN INSERT INTO vf_qlog(op,q,id,mtype,payload,ctx) VALUES('del','q',OLD.id,OLD.message_type,OLD.payload,vf_ctx()); END;
CREATE TRIGGER IF NOT EXISTS vf_d_ins AFTER INSERT ON queue_messages_dlq
  BEGIN INSERT INTO vf_qlog(op,q,id,mtype,payload,ctx) VALUES('ins','dlq',NEW.id,NEW.message_type,NEW.payload,vf_ctx()); END;
CREATE TRIGGER IF NOT EXISTS vf_d_del AFTER DELETE ON queue_messages_dlq
  BEGIN INSERT INTO vf_qlog(op,q,id,mtype,payload,ctx) VALUES('del','dlq',OLD.id,OLD.message_type,OLD.payload,vf_ctx()); END;
"""


def scratch_root() -> str:
    for cand in ("/dev/shm", os.environ.get("TMPDIR") or "", "/tmp"):
        if cand and os.path.isdir(cand) and os.access(cand, os.W_OK):
            return cand
    return tempfile.gettempdir()


class World:
    def __init__(
        self,
        events: bool = False,
        queue_max_attempts: int = 10,
        lock_seconds: float = 60.0,
        dedup: bool = True,
        trust_negative: bool = False,
        max_wait_retries: int = 6,
    ) -> None:
        global _CURRENT_WORLD
        stubs.reset()
        HOOKS.reset()
        self.dir = tempfile.mkdtemp(prefix="vfw_", dir=scratch_root())
        self.path = os.path.join(self.dir, "w.db")
        self.url = "sqlite:///" + self.path
        self.events = events
        self.queue_max_attempts = queue_max_attempts
        self.lock_seconds = lock_seconds
        self.dedup = dedup
        self.trust_negative = trust_negative
        self.max_wait_retries = max_wait_retries
        self.ledger = Ledger()
        self.on_task: Callable[[dict[str, Any]], None] | None = None
        self.handler_errors: list[str] = []
        self.handled: list[tuple[str, str]] = []  # (message type, row id) in handling order
        self.cancel_seen: list[Any] = []  # durable workflow status when each CancelWorkflow message was polled
        self.bus_log: list[Any] = []
        self.signal_seen: list[str | None] = []
        self.handler_calls: list[tuple[str, str, str]] = []  # durable stage status when each SignalStage was handled
        self._peek: sqlite3.Connection | None = None
        self._in_deliver = False
        self.workflow_id: str | None = None
        self.refs: dict[str, str] = {}  # ref_id -> stage id
        _CURRENT_WORLD = self
        self.boot(first=True)

    # -- process lifecycle -------------------------------------------------------------------
    def _reset_process_state(self) -> None:
        from stabilize.events import reset_event_bus, reset_event_recorder
        from stabilize.handlers.run_task.handler import RunTaskHandler
        from stabilize.queue import dedup as _dedup
        from stabilize.resilience.cancellation import reset_cancellation_state

        try:
            SingletonMeta.reset(ConnectionManager)
        except Crash:
            pass
        RunTaskHandler._executing_tasks.clear()
        reset_cancellation_state()
        _dedup.reset_deduplicator()
        reset_event_bus()
        reset_event_recorder()
        try:
            from stabilize.events.txn_scope import abort_store_transaction

            abort_store_transaction()
        except Exception:
            pass
        try:
            from stabilize.finalizers import get_finalizer_registry

            get_finalizer_registry().clear() if hasattr(get_finalizer_registry(), "clear") else None
        except Exception:
            pass

    def boot(self, first: bool = False) -> None:
        """Start a fresh worker process on the database file."""
        from stabilize.queue import dedup as _dedup

        HOOKS.dead = False
        self._reset_process_state()
        # Configuration (not code): how often a StartStage / CompleteWorkflow that finds nothing to
        # do re-queues itself before giving up (default 240 x 15 s = 1 h of virtual time).
        os.environ["STABILIZE_MAX_STAGE_WAIT_RETRIES"] = str(self.max_wait_retries)
        from stabilize.resilience.config import reset_handler_config

        reset_handler_config()
        _dedup.get_deduplicator(expected_items=4000, false_positive_rate=0.001)
        self.store = SqliteWorkflowStore(self.url, create_tables=True)
        self.queue = SqliteQueue(
            self.url,
            lock_duration=__import__("datetime").timedelta(seconds=self.lock_seconds),
            max_attempts=self.queue_max_attempts,
        )
        self.queue._create_table()
        conn = self.store._get_connection()
        if self.events:
            from stabilize.events import SqliteEventStore, configure_event_sourcing, get_event_bus

            self.event_store = SqliteEventStore(self.url, create_tables=True)
            configure_event_sourcing(self.event_store)
            try:
                bus = get_event_bus()
                bus.subscribe("vf", lambda ev: self.bus_log.append(ev))
            except Exception as e:  # pragma: no cover - API drift is a harness error
                raise RuntimeError("cannot subscribe to event bus: %r" % (e,))
        if first:
            conn.executescript(_AUDIT_DDL)
            conn.commit()
        self.registry = TaskRegistry()
        self.registry.register("vtask", VTask)
        cfg = QueueProcessorConfig(
            enable_deduplication=self.dedup,
            dedup_trust_negative_cache=self.trust_negative,
            enable_lock_heartbeat=False,
        )
        self.processor = QueueProcessor(self.queue, config=cfg, store=self.store, task_registry=self.registry)
        orig_handle = self.processor._handle_message

        def _handle_message(message: Any) -> None:
            HOOKS.ctx = type(message).__name__
            HOOKS.handler_base = HOOKS.commits
            if HOOKS.ctx == "SignalStage" and not self._in_deliver:
                self.signal_seen.append(self.peek_stage_status(message.stage_id))
            try:
                orig_handle(message)
            finally:
                HOOKS.ctx = ""
                HOOKS.handler_base = HOOKS.commits

        self.processor._handle_message = _handle_message  # type: ignore[method-assign]
        # count handler invocations per message id (C09 observe_at)
        for mt, h in list(self.processor._handlers.items()):
            self._wrap_handler(h)
        self.orchestrator = Orchestrator(self.queue, self.store)

    def second_worker(self) -> None:
        """Another worker process on the same database: its own QueueProcessor built with the DEFAULT
        configuration and its own duplicate filter, hydrated now.  ``self.active`` selects which worker
        handles the next deliveries ("A" = the world's own processor, "B" = this one)."""
        import stabilize.queue.processor.mixins as _mix
        from stabilize.queue.dedup import BloomDeduplicator

        self._dedup_b = BloomDeduplicator(expected_items=4000, false_positive_rate=0.001)
        self._real_get_dedup = _mix.get_deduplicator
        world = self

        def get_dedup(*a: Any, **k: Any) -> Any:
            return world._dedup_b if world.active == "B" else world._real_get_dedup(*a, **k)

        _mix.get_deduplicator = get_dedup  # type: ignore[assignment]
        self.active = "B"
        try:
            self.processor_b = QueueProcessor(self.queue, config=QueueProcessorConfig(enable_lock_heartbeat=False), store=self.store, task_registry=self.registry)
        finally:
            self.active = "A"
        for mt, h in list(self.processor_b._handlers.items()):
            self._wrap_handler(h)

    def _wrap_handler(self, h: Any) -> None:
        orig = h.handle
        world = self

        def handle(message: Any, _orig: Any = orig) -> None:
            mid = getattr(message, "message_id", None)
            world.handler_calls.append((str(mid), type(message).__name__, "enter"))
            _orig(message)
            world.handler_calls.append((str(mid), type(message).__name__, "return"))

        h.handle = handle

    def restart(self, expire_locks: bool = True) -> None:
        """Kill -9 and start again: all in-memory state dropped, uncommitted work rolled back."""
        HOOKS.dead = True
        HOOKS.on_commit = None
        HOOKS.on_statement = None
        self.boot()
        if expire_locks:
            stubs.CLOCK.advance(int(self.lock_seconds * 1000) + 2000)

    def _restore_second_worker(self) -> None:
        if getattr(self, "_real_get_dedup", None) is not None:
            import stabilize.queue.processor.mixins as _mix

            _mix.get_deduplicator = self._real_get_dedup  # type: ignore[assignment]
            self._real_get_dedup = None

    def close(self) -> None:
        self._restore_second_worker()
        global _CURRENT_WORLD
        HOOKS.dead = False
        HOOKS.on_commit = None
        HOOKS.on_statement = None
        try:
            if self._peek is not None:
                self._peek.close()
        except Exception:
            pass
        self._peek = None
        self._reset_process_state()
        shutil.rmtree(self.dir, ignore_errors=True)
        if _CURRENT_WORLD is self:
            _CURRENT_WORLD = None

    # -- side-channel reads (second plain connection, never hooked) -----------------------------
    def peek(self) -> sqlite3.Connection:
        if self._peek is None:
            self._peek = _REAL_SQLITE_CONNECT(self.path, timeout=30, check_same_thread=False, isolation_level=None)
            self._peek.row_factory = sqlite3.Row
            self._peek.create_function("datetime", -1, stubs.sql_datetime)
            self._peek.create_function("vf_ctx", 0, lambda: "harness")
        return self._peek

    def q(self, sql: str, *params: Any) -> list[sqlite3.Row]:
        return self.peek().execute(sql, params).fetchall()

    def peek_stage_status(self, stage_id: str) -> str | None:
        r = self.q("SELECT status FROM stage_executions WHERE id=?", stage_id)
        return r[0][0] if r else None

    def peek_task_status(self, task_id: str) -> str | None:
        r = self.q("SELECT status FROM task_executions WHERE id=?", task_id)
        return r[0][0] if r else None

    def peek_audit_seq(self) -> int:
        r = self.q("SELECT COALESCE(MAX(seq),0) FROM vf_audit")
        return int(r[0][0])

    def peek_canceled(self, wid: str) -> int:
        r = self.q("SELECT is_canceled FROM pipeline_executions WHERE id=?", wid)
        return int(r[0][0] or 0) if r else 0

    # -- workflow submission -----------------------------------------------------------------------
    NOISE = True  # every world also holds a finished execution of another definition that re-uses the same ref_ids

    def _store_noise(self, wf: Workflow) -> None:
        """Another, already finished execution in the same database whose stages have the same
        ref_ids as the workload's but different dependencies (a pipeline definition edited between
        runs).  Nothing of it may leak into the execution under test."""
        refs = [s.ref_id for s in wf.stages]
        real = {s.ref_id: set(s.requisite_stage_ref_ids) for s in wf.stages}
        stages = []
        for i, r in enumerate(refs):
            deps = {q for q in refs[:i] if q not in real[r]}
            t = TaskExecution.create(name="t1", implementing_class="vtask", stage_start=True, stage_end=True)
            t.status = WorkflowStatus.SUCCEEDED
            stages.append(StageExecution(ref_id=r, type="vtask", name=r, status=WorkflowStatus.SUCCEEDED, context={"noise": True}, outputs={"o_" + r: -1, "k": "noise", "noise_" + r: 1},
                                         tasks=[t], requisite_stage_ref_ids=deps))
        noise = Workflow(application="vf-noise", name="noise", stages=stages, status=WorkflowStatus.SUCCEEDED)
        self.store.store(noise)
        self.noise_id = noise.id

    def submit(self, wf: Workflow) -> Workflow:
        if self.NOISE:
            self._store_noise(wf)
        self.workflow_id = wf.id
        self.refs = {s.ref_id: s.id for s in wf.stages}
        self.store.store(wf)
        self.orchestrator.start(wf)
        return wf

    def twin_summary(self) -> dict[str, Any] | None:
        tid = getattr(self, "twin_id", None)
        if tid is None:
            return None
        wf = self.q("SELECT status FROM pipeline_executions WHERE id=?", tid)
        st = {r["ref_id"]: r["status"] for r in self.q("SELECT ref_id, status FROM stage_executions WHERE execution_id=? AND parent_stage_id IS NULL", tid)}
        return {"workflow": wf[0]["status"] if wf else None, "stages": st}

    def submit_twin(self, wf: Workflow) -> Workflow:
        """A second LIVE execution in the same database (same or another definition): its messages interleave with
        those of the execution under test; nothing of it may leak into that one (and vice versa)."""
        self.twin_id = wf.id
        self.store.store(wf)
        self.orchestrator.start(wf)
        return wf

    # -- queue views ----------------------------------------------------------------------------------
    def rows(self) -> list[dict[str, Any]]:
        out = []
        for r in self.q(
            "SELECT id, message_type, payload, deliver_at, locked_until, attempts, max_attempts, version "
            "FROM queue_messages ORDER BY id"
        ):
            d = dict(r)
            d["deliver_ms"] = stubs.ms_of_iso(d["deliver_at"]) if d["deliver_at"] else 0
            d["lock_ms"] = stubs.ms_of_iso(d["locked_until"]) if d["locked_until"] else None
            out.append(d)
        return out

    def queue_size(self) -> int:
        return int(self.q("SELECT COUNT(*) FROM queue_messages")[0][0])

    def dlq_size(self) -> int:
        return int(self.q("SELECT COUNT(*) FROM queue_messages_dlq")[0][0])

    def make_visible(self) -> bool:
        """Advance the clock until some message is deliverable.  False if the queue holds nothing
        that can ever be delivered (empty, or only attempts-exhausted rows)."""
        rows = [r for r in self.rows() if r["attempts"] < self.queue_max_attempts]
        if not rows:
            return False
        now = stubs.CLOCK.peek_ms()
        best = None
        for r in rows:
            t = r["deliver_ms"]
            if r["lock_ms"] is not None:
                t = max(t, r["lock_ms"] + 1000)
            best = t if best is None else min(best, t)
        assert best is not None
        # SQL compares at one-second granularity: make the second boundary pass.
        target = (best // 1000 + 1) * 1000
        if target > now:
            stubs.CLOCK.advance(target - now)
        return True

    # -- stepping ----------------------------------------------------------------------------------------
    def step_fifo(self) -> bool:
        """One process_one() of the real processor (natural order).  Returns False when the queue
        can make no progress."""
        if not self.make_visible():
            return False
        try:
            self.processor.process_one()
        except Crash:
            raise
        except Exception as e:  # the processor rescheduled the message
            self.handler_errors.append(type(e).__name__ + ": " + str(e)[:200])
        return True

    def step_fifo_fresh_thread(self) -> bool:
        """step_fifo() on a thread that has never touched the database before (a pool processor hands every
        message to a worker thread: thread-local connections and per-thread lazy initialisation start from scratch)."""
        import threading

        out: list[Any] = []

        def run() -> None:
            try:
                out.append(("ok", self.step_fifo()))
            except BaseException as e:  # noqa: BLE001  (a Crash raised by the commit hook crosses the thread boundary)
                out.append(("exc", e))

        t = threading.Thread(target=run, daemon=True)
        t.start()
        t.join(timeout=120)
        if not out:
            raise RuntimeError("worker thread did not finish")
        kind, val = out[0]
        if kind == "exc":
            raise val
        return bool(val)

    def drain(self, max_steps: int = 600) -> int:
        n = 0
        while n < max_steps and self.step_fifo():
            n += 1
            if n % 50 == 0:
                self.processor._check_dlq()
        self.processor._check_dlq()
        return n

    def deliver(self, row_id: int, ack: bool = True) -> str | None:
        """Deliver exactly the queue row ``row_id`` next (delivery order is the environment's
        choice): the row is moved to the head of the natural order, then the real poll_one /
        _handle_message / ack (or reschedule) of the processor run."""
        now = stubs.CLOCK.peek_ms()
        rows = {r["id"]: r for r in self.rows()}
        r = rows.get(row_id)
        if r is None:
            return None
        outer_in_deliver = self._in_deliver
        self._in_deliver = False  # a nested delivery (another worker) is polling: not inside a handler yet
        try:
            return self._deliver(row_id, r, now, ack)
        finally:
            self._in_deliver = outer_in_deliver

    def _deliver(self, row_id: int, r: dict[str, Any], now: int, ack: bool) -> str | None:
        t = r["deliver_ms"]
        if r["lock_ms"] is not None:
            t = max(t, r["lock_ms"] + 1000)
        target = (t // 1000 + 1) * 1000
        if target > now:
            stubs.CLOCK.advance(target - now)
        p = self.peek()
        orig_deliver_at = r["deliver_at"]
        p.execute("UPDATE queue_messages SET deliver_at='1970-01-01T00:00:00+00:00' WHERE id=?", (row_id,))
        try:
            msg = self.queue.poll_one()
        finally:
            # (no-op if the row was acked/rescheduled meanwhile; an un-acked row keeps its place)
            pass
        if msg is None or str(msg.message_id) != str(row_id):
            raise RuntimeError("scheduler: poll_one returned %r instead of row %s" % (msg, row_id))
        mtype = type(msg).__name__
        self.handled.append((mtype, str(row_id)))
        if mtype == "SignalStage":
            self.signal_seen.append(self.peek_stage_status(msg.stage_id))
        if mtype == "CancelWorkflow":
            r_ = self.q("SELECT status FROM pipeline_executions WHERE id=?", getattr(msg, "execution_id", ""))
            self.cancel_seen.append(r_[0][0] if r_ else None)
        try:
            self._in_deliver = True
            try:
                if getattr(self, "active", "A") == "B":
                    HOOKS.ctx = mtype
                    HOOKS.handler_base = HOOKS.commits
                    try:
                        self.processor_b._handle_message(msg)
                    finally:
                        HOOKS.ctx = ""
                        HOOKS.handler_base = HOOKS.commits
                else:
                    self.processor._handle_message(msg)
            finally:
                self._in_deliver = False
            if ack:
                self.queue.ack(msg)
        except Crash:
            raise
        except Exception as e:
            self.handler_errors.append(mtype + ": " + type(e).__name__ + ": " + str(e)[:200])
            msg.set_error_context(e)
            self.queue.reschedule(msg, self.processor.config.retry_delay)
        if not ack:
            p.execute("UPDATE queue_messages SET deliver_at=? WHERE id=? AND deliver_at='1970-01-01T00:00:00+00:00'", (orig_deliver_at, row_id))
        return mtype

    def run_now(self, message: Any) -> None:
        """Another worker handles `message` right now, to completion (used from inside a task body:
        the RunTask handler holds no transaction while the task executes)."""
        self.queue.push(message)
        rid = self.q("SELECT MAX(id) FROM queue_messages")[0][0]
        saved = (HOOKS.ctx, HOOKS.handler_base, self._in_deliver)
        try:
            self.deliver(int(rid))
        finally:
            HOOKS.ctx, HOOKS.handler_base, self._in_deliver = saved

    # -- observation ------------------------------------------------------------------------------------
    def snapshot(self) -> dict[str, Any]:
        wid = self.workflow_id
        wf = self.q("SELECT status, is_canceled FROM pipeline_executions WHERE id=?", wid)
        stages = {}
        for r in self.q(
            "SELECT id, ref_id, status, parent_stage_id, synthetic_stage_owner, context, outputs, start_time "
            "FROM stage_executions WHERE execution_id=? ORDER BY id",
            wid,
        ):
            key = r["ref_id"] if r["parent_stage_id"] is None else "syn:" + r["id"]
            tasks = [
                (t["name"], t["status"])
                for t in self.q("SELECT name, status FROM task_executions WHERE stage_id=? ORDER BY id", r["id"])
            ]
            stages[key] = {
                "id": r["id"],
                "status": r["status"],
                "tasks": tasks,
                "parent": r["parent_stage_id"],
                "context": json.loads(r["context"] or "{}"),
                "outputs": json.loads(r["outputs"] or "{}"),
                "start_time": r["start_time"],
            }
        return {
            "workflow": wf[0]["status"] if wf else None,
            "canceled": int(wf[0]["is_canceled"] or 0) if wf else 0,
            "stages": stages,
            "queue": self.queue_size(),
            "dlq": self.dlq_size(),
        }

    def audit(self) -> list[dict[str, Any]]:
        return [dict(r) for r in self.q("SELECT seq, tbl, id, old, new, ctx FROM vf_audit ORDER BY seq")]

    def qlog(self) -> list[dict[str, Any]]:
        return [dict(r) for r in self.q("SELECT seq, op, q, id, mtype, payload, ctx FROM vf_qlog ORDER BY seq")]


# ----------------------------------------------------------------------------- workload builders
def stage(
    ref: str,
    deps: list[str] | tuple[str, ...] = (),
    tasks: dict[str, dict[str, Any]] | None = None,
    ctx: dict[str, Any] | None = None,
    **kw: Any,
) -> StageExecution:
    tasks = tasks if tasks is not None else {"t1": {"kind": "ok"}}
    names = list(tasks)
    tlist = [
        TaskExecution.create(
            name=n, implementing_class="vtask", stage_start=(i == 0), stage_end=(i == len(names) - 1)
        )
        for i, n in enumerate(names)
    ]
    context = {"vf": tasks}
    context.update(ctx or {})
    return StageExecution(
        ref_id=ref,
        type="vtask",
        name=ref,
        context=context,
        tasks=tlist,
        requisite_stage_ref_ids=set(deps),
        **kw,
    )


def workflow(stages: list[StageExecution], context: dict[str, Any] | None = None) -> Workflow:
    return Workflow.create(application="vf", name="w", stages=stages, context=context)


OK = {"kind": "ok"}


def wl_chain(n: int = 2) -> Workflow:
    return workflow([stage("s%d" % i, ["s%d" % (i - 1)] if i else []) for i in range(n)])


def _register_built_type() -> None:
    """Stage type whose single task is created at plan time by a StageDefinitionBuilder."""
    from stabilize.stages.builder import StageDefinitionBuilder, get_default_factory

    class VfBuilt(StageDefinitionBuilder):
        @property
        def type(self) -> str:
            return "vtask_built"

        def build_tasks(self, stage):  # type: ignore[no-untyped-def]
            return [TaskExecution.create(name="t1", implementing_class="vtask", stage_start=True, stage_end=True)]

    get_default_factory().register(VfBuilt())


def _register_setup_type() -> None:
    """Stage type whose builder adds a before-stage 'setup' (one task) when the stage is planned."""
    from stabilize.models.stage import SyntheticStageOwner
    from stabilize.stages.builder import StageDefinitionBuilder, get_default_factory

    class VfDeploy(StageDefinitionBuilder):
        @property
        def type(self) -> str:
            return "vtask_deploy"

        def before_stages(self, stage, graph):  # type: ignore[no-untyped-def]
            setup = StageExecution.create_synthetic(type="vtask", name="setup", parent=stage, owner=SyntheticStageOwner.STAGE_BEFORE, context={"vf": {"t1": {"kind": "ok"}}})
            setup.tasks = [TaskExecution.create(name="t1", implementing_class="vtask", stage_start=True, stage_end=True)]
            graph.add(setup)

    get_default_factory().register(VfDeploy())


def _register_fanin_type() -> None:
    """Stage type whose builder plans three before-stages with a fan-in among them: fast (1 task) and
    slow (polls twice) in parallel, then merge (AND join on both)."""
    from stabilize.models.stage import SyntheticStageOwner
    from stabilize.stages.builder import StageDefinitionBuilder, get_default_factory

    class VfFanin(StageDefinitionBuilder):
        @property
        def type(self) -> str:
            return "vtask_fanin"

        def before_stages(self, stage, graph):  # type: ignore[no-untyped-def]
            def mk(name: str, beh: dict[str, Any]) -> StageExecution:
                st = StageExecution.create_synthetic(type="vtask", name=name, parent=stage, owner=SyntheticStageOwner.STAGE_BEFORE, context={"vf": {"t1": beh}})
                st.tasks = [TaskExecution.create(name="t1", implementing_class="vtask", stage_start=True, stage_end=True)]
                return st

            fast, slow, merge = mk("fast", {"kind": "ok"}), mk("slow", {"kind": "poll", "n": 2}), mk("merge", {"kind": "ok"})
            graph.add(fast)
            graph.add(slow)
            graph.add(merge)
            graph.connect(fast, merge)
            graph.connect(slow, merge)

    get_default_factory().register(VfFanin())


def wl_builder_fanin() -> Workflow:
    """p (own task; its builder plans before-stages fast || slow -> merge) -> d."""
    _register_fanin_type()
    p = stage("p")
    p.type = "vtask_fanin"
    return workflow([p, stage("d", ["p"])])


def wl_builder_before() -> Workflow:
    """p (own task; its builder creates a before-stage at plan time) -> d."""
    _register_setup_type()
    p = stage("p")
    p.type = "vtask_deploy"
    return workflow([p, stage("d", ["p"])])


def wl_diamond_built() -> Workflow:
    """diamond whose join d has no pre-defined tasks: they are built when the stage is planned."""
    _register_built_type()
    wf = wl_diamond()
    d = next(s for s in wf.stages if s.ref_id == "d")
    d.tasks = []
    d.type = "vtask_built"
    return wf


def wl_diamond(fail: str | None = None, cont: bool = False, join_tasks: int = 1, stop: bool = False) -> Workflow:
    bt = {"t1": {"kind": "terminal"}} if fail == "b" else None
    bctx = {"continuePipelineOnFailure": True} if cont else ({"failPipeline": False} if stop else None)
    return workflow(
        [
            stage("a"),
            stage("b", ["a"], tasks=bt, ctx=bctx),
            stage("c", ["a"]),
            stage("d", ["b", "c"], tasks={"t%d" % i: dict(OK) for i in range(1, join_tasks + 1)}),
        ]
    )


def wl_tasks(n: int = 3) -> Workflow:
    return workflow([stage("a", tasks={"t%d" % i: dict(OK) for i in range(1, n + 1)}), stage("b", ["a"])])


def wl_join(join: JoinType, n_up: int = 2, threshold: int = 0) -> Workflow:
    ups = [stage("u%d" % i, ["r"]) for i in range(n_up)]
    j = stage("j", ["u%d" % i for i in range(n_up)], join_type=join, join_threshold=threshold)
    return workflow([stage("r")] + ups + [j, stage("z", ["j"])])


def wl_poll(n: int = 2, then_ok: bool = False) -> Workflow:
    tasks: dict[str, dict[str, Any]] = {"t1": {"kind": "poll", "n": n}}
    if then_ok:
        tasks["t2"] = dict(OK)
    return workflow([stage("a", tasks=tasks), stage("b", ["a"])])


def wl_transient(n: int, with_ctx: bool = False, pos: int = 1, ntasks: int = 1) -> Workflow:
    tasks = {}
    for i in range(1, ntasks + 1):
        tasks["t%d" % i] = {"kind": "transient", "n": n, "ctx": with_ctx} if i == pos else dict(OK)
    return workflow([stage("a", tasks=tasks), stage("b", ["a"])])


def wl_selfloop(times: int = 2, max_jumps: int | None = None) -> Workflow:
    ctx = {"_max_jumps": max_jumps} if max_jumps is not None else None
    return workflow(
        [stage("a", tasks={"t1": {"kind": "jump", "target": "a", "times": times}}), stage("b", ["a"])],
        context=ctx,
    )


def wl_backjump(times: int = 1, max_jumps: int | None = None, sibling: bool = False) -> Workflow:
    """t -> a -> x(jumps back to t `times` times) -> z ; optional sibling branch t -> b(2 tasks)."""
    ctx = {"_max_jumps": max_jumps} if max_jumps is not None else None
    st = [
        stage("t"),
        stage("a", ["t"]),
        stage("x", ["a"], tasks={"t1": {"kind": "jump", "target": "t", "times": times}}),
    ]
    if sibling:
        st.append(stage("b", ["t"], tasks={"t1": dict(OK), "t2": dict(OK)}))
        st.append(stage("z", ["x", "b"]))
    else:
        st.append(stage("z", ["x"]))
    return workflow(st, context=ctx)


def wl_sidejump(times: int = 1) -> Workflow:
    """a -> {b, c, x}; j <- {b, c}; x (a parallel branch that j does not depend on) jumps back to a."""
    return workflow(
        [
            stage("a"),
            stage("b", ["a"]),
            stage("c", ["a"]),
            stage("x", ["a"], tasks={"t1": {"kind": "jump", "target": "a", "times": times}}),
            stage("j", ["b", "c"]),
        ]
    )


def wl_loop_skip() -> Workflow:
    """a -> b -> c -> d; d jumps back to a once; in the second iteration a jumps forward to c, so b
    (which ran in iteration 1) is skipped in iteration 2."""
    return workflow(
        [
            stage("a", tasks={"t1": {"kind": "jump_at", "target": "c", "at": 1}}),
            stage("b", ["a"]),
            stage("c", ["b"]),
            stage("d", ["c"], tasks={"t1": {"kind": "jump", "target": "a", "times": 1}}),
            stage("e", ["d"]),
        ]
    )


def wl_skip_then_loop() -> Workflow:
    """head -> mid -> tail -> end; head jumps forward to tail in its first run (mid is bypassed), tail jumps
    back to head once; in the second iteration head does not jump, so the re-armed mid has to run."""
    return workflow(
        [
            stage("head", tasks={"t1": {"kind": "jump_at", "target": "tail", "at": 0}}),
            stage("mid", ["head"]),
            stage("tail", ["mid"], tasks={"t1": {"kind": "jump", "target": "head", "times": 2}}),
            stage("end", ["tail"]),
        ]
    )


def wl_two_roots(kind: str) -> Workflow:
    """Two initial stages.  stop: s fails with failPipeline=false (STOPPED) next to the healthy root w -> z;
    cont: every stage carries continuePipelineOnFailure and succeeds (chain under a failure policy)."""
    if kind == "stop":
        return workflow([stage("s", tasks={"t1": {"kind": "terminal"}}, ctx={"failPipeline": False}), stage("w"), stage("z", ["w"])])
    return workflow([stage("p", ctx={"continuePipelineOnFailure": True}), stage("q", ["p"], ctx={"continuePipelineOnFailure": True}), stage("r", ["q"], ctx={"failPipeline": False})])


def wl_joinjump(times: int = 1) -> Workflow:
    """a -> {b1, b2} -> c (a join that jumps back to a `times` times) -> z."""
    return workflow(
        [
            stage("a"),
            stage("b1", ["a"]),
            stage("b2", ["a"]),
            stage("c", ["b1", "b2"], tasks={"t1": {"kind": "jump", "target": "a", "times": times}}),
            stage("z", ["c"]),
        ]
    )


def wl_forward_jump(extra_task: bool = False) -> Workflow:
    """s jumps forward over the diamond (p,q -> m) to e (optionally from the first of two tasks)."""
    st: dict[str, dict[str, Any]] = {"t1": {"kind": "jump", "target": "e", "times": 1}}
    if extra_task:
        st["t2"] = dict(OK)
    return workflow(
        [
            stage("s", tasks=st),
            stage("p", ["s"]),
            stage("q", ["s"]),
            stage("m", ["p", "q"]),
            stage("e", ["m"]),
        ]
    )


def wl_suspend(signals: int = 1) -> Workflow:
    return workflow([stage("a"), stage("w", ["a"], tasks={"t1": {"kind": "suspend", "signals": signals}}), stage("z", ["w"])])


def wl_loop_suspend() -> Workflow:
    """a (jumps back to itself once) -> w (suspends until signalled) -> z: a signal that arrives early is
    buffered on w while the loop upstream of it re-arms w."""
    return workflow([stage("a", tasks={"t1": {"kind": "jump", "target": "a", "times": 1}}), stage("w", ["a"], tasks={"t1": {"kind": "suspend", "signals": 1}}), stage("z", ["w"])])


def wl_suspend_in_loop() -> Workflow:
    """t -> w (suspends until signalled) -> x (jumps back to t once) -> z: the gate is passed once per signal,
    also in the second iteration."""
    return workflow([stage("t"), stage("w", ["t"], tasks={"t1": {"kind": "suspend", "signals": 1}}),
                     stage("x", ["w"], tasks={"t1": {"kind": "jump", "target": "t", "times": 1}}), stage("z", ["x"])])


def wl_mutex() -> Workflow:
    return workflow(
        [stage("r"), stage("m1", ["r"], mutex_key="k"), stage("m2", ["r"], mutex_key="k"), stage("z", ["m1", "m2"])]
    )


def wl_mutex_hold(n: int) -> Workflow:
    """r -> {m1 (polls n times while holding the mutex), m2 (same mutex key)} -> z: how long the waiter waits is n."""
    return workflow(
        [stage("r"), stage("m1", ["r"], tasks={"t1": {"kind": "poll", "n": n}}, mutex_key="k"), stage("m2", ["r"], mutex_key="k"), stage("z", ["m1", "m2"])]
    )


def wl_choice() -> Workflow:
    return workflow(
        [
            stage("r"),
            stage("c1", ["r"], deferred_choice_group="g"),
            stage("c2", ["r"], deferred_choice_group="g"),
        ]
    )


def wl_choice_down() -> Workflow:
    """r -> {c1 (2 tasks), c2} (one deferred-choice group) with e1 after c1 and e2 after c2: the losing member is
    cancelled at stage level while the workflow goes on, its downstream stage stays NOT_STARTED behind it."""
    return workflow(
        [
            stage("r"),
            stage("c1", ["r"], tasks={"t1": dict(OK), "t2": dict(OK)}, deferred_choice_group="g"),
            stage("c2", ["r"], deferred_choice_group="g"),
            stage("e1", ["c1"]),
            stage("e2", ["c2"]),
        ]
    )


def wl_synthetic2(kind: str) -> Workflow:
    """More synthetic shapes.  fail_beside_before: top-level a fails terminally next to b, whose
    before-stage c (2 tasks) is still running; before2_fail: p with two parallel before-stages x
    (fails) and y (2 tasks)."""
    from stabilize.models.stage import SyntheticStageOwner

    if kind == "fail_beside_before":
        a = stage("a", tasks={"t1": {"kind": "terminal"}})
        b = stage("b")
        c = stage("c", tasks={"t1": dict(OK), "t2": dict(OK)}, synthetic_stage_owner=SyntheticStageOwner.STAGE_BEFORE)
        d = stage("d", ["b"])
        wf = workflow([a, b, c, d])
        c.parent_stage_id = b.id
        return wf
    if kind == "before2_t2":
        # two parallel before-stages that both succeed (two ContinueParentStage messages), parent with two tasks
        p = stage("p", tasks={"t1": dict(OK), "t2": dict(OK)})
        x = stage("x", synthetic_stage_owner=SyntheticStageOwner.STAGE_BEFORE)
        y = stage("y", synthetic_stage_owner=SyntheticStageOwner.STAGE_BEFORE)
    elif kind in ("before2_latefail_cont", "before2_latefail_stop"):
        # x succeeds first (its ContinueParentStage waits for y), y fails later; p carries a failure policy
        p = stage("p", ctx={"continuePipelineOnFailure": True} if kind.endswith("_cont") else {"failPipeline": False})
        x = stage("x", synthetic_stage_owner=SyntheticStageOwner.STAGE_BEFORE)
        y = stage("y", tasks={"t1": dict(OK), "t2": {"kind": "terminal"}}, synthetic_stage_owner=SyntheticStageOwner.STAGE_BEFORE)
    else:
        p = stage("p")
        x = stage("x", tasks={"t1": {"kind": "terminal"}}, synthetic_stage_owner=SyntheticStageOwner.STAGE_BEFORE)
        y = stage("y", tasks={"t1": dict(OK), "t2": dict(OK)}, synthetic_stage_owner=SyntheticStageOwner.STAGE_BEFORE)
    d = stage("d", ["p"])
    wf = workflow([p, x, y, d])
    x.parent_stage_id = p.id
    y.parent_stage_id = p.id
    return wf


def wl_synthetic(kind: str) -> Workflow:
    """p (top level) with pre-declared synthetic children, then d after p.
    after2[_fail|_failcont]: two parallel after-stages a1 (1 task; fails terminally in the _fail
    variants) and a2 (2 tasks, finishes later); _failcont: p has continuePipelineOnFailure.
    before1[_fail]: one before-stage b (fails terminally in the _fail variant)."""
    from stabilize.models.stage import SyntheticStageOwner

    fail = {"kind": "terminal"} if kind.endswith(("_fail", "_failcont")) else dict(OK)
    pctx = {"continuePipelineOnFailure": True} if kind.endswith("_failcont") else None
    p = stage("p", ctx=pctx)
    kids: list[StageExecution] = []
    if kind.startswith("after2"):
        kids.append(stage("a1", tasks={"t1": fail}, synthetic_stage_owner=SyntheticStageOwner.STAGE_AFTER))
        kids.append(stage("a2", tasks={"t1": dict(OK), "t2": dict(OK)}, synthetic_stage_owner=SyntheticStageOwner.STAGE_AFTER))
    else:
        kids.append(stage("b", tasks={"t1": fail}, synthetic_stage_owner=SyntheticStageOwner.STAGE_BEFORE))
    d = stage("d", ["p"])
    wf = workflow([p] + kids + [d])
    for k in kids:
        k.parent_stage_id = p.id
    return wf


MUTEX_HOLD_MAX = 64
WORKLOADS: dict[str, Callable[[], Workflow]] = {
    **{"mutex_hold_%d" % n: (lambda n=n: wl_mutex_hold(n)) for n in range(0, MUTEX_HOLD_MAX + 1)},
    "chain2": lambda: wl_chain(2),
    "chain3": lambda: wl_chain(3),
    "diamond": wl_diamond,
    "diamond_fail": lambda: wl_diamond(fail="b"),
    "diamond_cont": lambda: wl_diamond(fail="b", cont=True),
    "tasks3": lambda: wl_tasks(3),
    "tasks2": lambda: wl_tasks(2),
    "disc2": lambda: wl_join(JoinType.DISCRIMINATOR, 2),
    "nofm23": lambda: wl_join(JoinType.N_OF_M, 3, 2),
    "poll2": lambda: wl_poll(2),
    "transient_always": lambda: wl_transient(13),
    "transient2": lambda: wl_transient(2),
    "transient9": lambda: wl_transient(9, with_ctx=True),  # progress saved with each retry; fails transiently 9 times and succeeds on the last attempt the documented budget allows
    "transient2ctx": lambda: wl_transient(2, with_ctx=True),
    "selfloop2": lambda: wl_selfloop(2),
    "backjump1": lambda: wl_backjump(1),
    "backjump2": lambda: wl_backjump(2),
    "sidejump": wl_sidejump,
    "selfloop2_exact": lambda: wl_selfloop(2, max_jumps=2),
    "loop_skip": wl_loop_skip,
    "raise1": lambda: workflow([stage("a", tasks={"t1": {"kind": "raise"}}), stage("b", ["a"])]),
    "two_roots_stop": lambda: wl_two_roots("stop"),
    "chain_policy": lambda: wl_two_roots("cont"),
    "skip_then_loop": wl_skip_then_loop,
    "diamond_stop": lambda: wl_diamond(fail="b", stop=True),
    "backjump1sib": lambda: wl_backjump(1, sibling=True),
    "fwdjump": wl_forward_jump,
    "joinjump": wl_joinjump,
    "suspend": wl_suspend,
    "suspend2": lambda: wl_suspend(signals=2),
    "loop_suspend": wl_loop_suspend,
    "suspend_in_loop": wl_suspend_in_loop,
    "mutex": wl_mutex,
    "choice": wl_choice,
    "choice_down": wl_choice_down,
    "skip_mid": lambda: workflow([stage("a"), stage("b", ["a"], ctx={"stageEnabled": False}), stage("c", ["b"])]),
    "fwdjump_t2": lambda: wl_forward_jump(extra_task=True),
    "poll2_t2": lambda: wl_poll(2, then_ok=True),
    "diamond_j2": lambda: wl_diamond(join_tasks=2),
    "diamond_built": wl_diamond_built,
    "builder_before": wl_builder_before,
    "builder_fanin": wl_builder_fanin,
    "after2": lambda: wl_synthetic("after2"),
    "after2_fail": lambda: wl_synthetic("after2_fail"),
    "after2_failcont": lambda: wl_synthetic("after2_failcont"),
    "fail_beside_before": lambda: wl_synthetic2("fail_beside_before"),
    "before2_fail": lambda: wl_synthetic2("before2_fail"),
    "before2_t2": lambda: wl_synthetic2("before2_t2"),
    "before2_latefail_cont": lambda: wl_synthetic2("before2_latefail_cont"),
    "before2_latefail_stop": lambda: wl_synthetic2("before2_latefail_stop"),
    "before1": lambda: wl_synthetic("before1"),
    "before1_fail": lambda: wl_synthetic("before1_fail"),
}


def summarize(snap: dict[str, Any]) -> dict[str, Any]:
    """Outcome of a run as the properties mean it: workflow status, status of every stage."""
    return {
        "workflow": snap["workflow"],
        "stages": {k: v["status"] for k, v in snap["stages"].items() if not k.startswith("syn:")},
        "tasks": {k: v["tasks"] for k, v in snap["stages"].items() if not k.startswith("syn:")},
        "queue": snap["queue"],
        "dlq": snap["dlq"],
    }
