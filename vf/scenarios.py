"""S1 scenarios: whole-engine runs on the real sqlite whose control variables are symbolic.

Every function here is called from a PEP-316 harness function (harness/Cxx_*.py).  The engine runs
inside ``hx.native()``; each comparison of a symbolic control variable with a concrete counter is
made under tracing (``hx.decide_eq``), i.e. decided by z3, so the paths CrossHair explores are
exactly the distinguishable values of the control variables and "Confirmed over all paths" means
"for every value within the bound".
"""

from __future__ import annotations

import json
from collections import Counter
from typing import Any, Callable

from vf import hx, stubs
from vf.native import HOOKS, WORKLOADS, Crash, World, commit_site, summarize

COMPLETE = {"SUCCEEDED", "FAILED_CONTINUE", "TERMINAL", "CANCELED", "STOPPED", "SKIPPED"}
CONTINUABLE = {"SUCCEEDED", "FAILED_CONTINUE", "SKIPPED"}
WAITING = {"SUSPENDED", "PAUSED", "BUFFERED"}

_REF_CACHE: dict[str, dict[str, Any]] = {}


def _ledger_view(w: World) -> list[tuple[str, str, str]]:
    return [(e["ref"], e["task"], json.dumps(e["ctx"], sort_keys=True)) for e in w.ledger.entries]


def reference(workload: str, events: bool = False, pre: Callable[[World], None] | None = None, tag: str = "") -> dict[str, Any]:
    """FIFO, exactly-once, crash-free run of the workload in this process (cached)."""
    key = workload + ("+ev" if events else "") + tag
    if key in _REF_CACHE:
        return _REF_CACHE[key]
    w = World(events=events)
    try:
        w.submit(WORKLOADS[workload]())
        if pre is not None:
            pre(w)
        steps = w.drain()
        snap = w.snapshot()
        ref = {
            "summary": summarize(snap),
            "ledger": _ledger_view(w),
            "commits": HOOKS.commits,
            "steps": steps,
            "errors": list(w.handler_errors),
            "audit": w.audit(),
        }
    finally:
        w.close()
    _REF_CACHE[key] = ref
    return ref


def quiescent_ok(snap: dict[str, Any]) -> str | None:
    """C05 predicate on a drained world: finished, or explicitly waiting."""
    wf = snap["workflow"]
    st = {k: v["status"] for k, v in snap["stages"].items()}
    if snap["queue"] != 0:
        return "queue not empty (%d) after drain" % snap["queue"]
    if snap["dlq"] != 0:
        return "message in DLQ"
    if wf in COMPLETE:
        running = [k for k, v in st.items() if v == "RUNNING"]
        if running:
            return "workflow %s but stage(s) %s RUNNING" % (wf, running)
        top = {k: v for k, v in st.items() if not k.startswith("syn:")}
        if wf == "SUCCEEDED":
            bad = [k for k, v in top.items() if v not in CONTINUABLE]
            if bad:
                return "workflow SUCCEEDED but stage(s) %s = %s" % (bad, [top[b] for b in bad])
        if "TERMINAL" in top.values() and wf == "SUCCEEDED":
            return "terminal stage but workflow SUCCEEDED"
        return None
    if wf in WAITING or any(v in WAITING for v in st.values()):
        return None
    return "workflow %s, stages %s, queue empty: silently stuck" % (wf, st)


def compare_outcome(ref: dict[str, Any], got_summary: dict[str, Any], got_ledger: list[tuple[str, str, str]], extra_allowed: int) -> tuple[str, Any] | None:
    rs = ref["summary"]
    if got_summary["workflow"] != rs["workflow"]:
        return ("workflow_status", {"expected": rs["workflow"], "got": got_summary["workflow"], "stages": got_summary["stages"]})
    if got_summary["stages"] != rs["stages"]:
        return ("stage_status", {"expected": rs["stages"], "got": got_summary["stages"]})
    if got_summary["tasks"] != rs["tasks"]:
        return ("task_status", {"expected": rs["tasks"], "got": got_summary["tasks"]})
    if got_summary["queue"] != 0 or got_summary["dlq"] != 0:
        return ("stranded_message", {"queue": got_summary["queue"], "dlq": got_summary["dlq"]})
    rc = Counter(ref["ledger"])
    gc = Counter(got_ledger)
    missing = rc - gc
    if missing:
        return ("missing_execution_or_context", {"missing": sorted(missing.elements())[:3], "got": sorted(gc.elements())[:8]})
    extra = gc - rc
    n_extra = sum(extra.values())
    if n_extra > extra_allowed:
        return ("extra_executions", {"extra": sorted(extra.elements())[:4], "allowed": extra_allowed})
    unknown = [e for e in extra if (e[0], e[1]) not in {(r[0], r[1]) for r in rc}]
    if unknown:
        return ("unexpected_task_executed", {"extra": unknown[:3]})
    return None


# ----------------------------------------------------------------------------------------------- C01
def crash_run(workload: str, k1: Any, k2: Any = None, events: bool = False, sweeps: int = 1) -> bool:
    """Kill the worker at durable commit number k1 (and the restarted worker at its commit number
    k2), restart, lock expiry, recovery sweep, drain; compare with the uninterrupted run."""
    with hx.Path("crash_run:" + workload) as P:
        with hx.native():
            ref = reference(workload, events)
            w = World(events=events)
            try:
                crashes = 0
                crashed_at: list[int] = []
                sites: list[str] = []

                def hook_factory(sym: Any) -> Callable[[Any], None]:
                    base = HOOKS.commits

                    def hook(conn: Any) -> None:
                        n = HOOKS.commits - base
                        if hx.decide_eq(sym, n):
                            crashed_at.append(n)
                            sites.append(commit_site())
                            HOOKS.dead = True
                            raise Crash()

                    return hook

                w.submit(WORKLOADS[workload]())  # the submitter is not the worker: no crash here
                HOOKS.on_commit = hook_factory(k1)
                try:
                    w.drain()
                except Crash:
                    crashes += 1
                HOOKS.on_commit = None
                if crashes:
                    w.restart()
                    if k2 is not None:
                        HOOKS.on_commit = hook_factory(k2)
                    try:
                        for _ in range(sweeps):
                            w.processor.run_recovery()
                        w.drain()
                    except Crash:
                        crashes += 1
                    HOOKS.on_commit = None
                    if crashes == 2:
                        w.restart()
                        for _ in range(sweeps):
                            w.processor.run_recovery()
                        w.drain()
                snap = w.snapshot()
                summ = summarize(snap)
                led = _ledger_view(w)
                if crashes:
                    P.reached("%s@%s" % (workload, crashed_at), {"workload": workload, "crash_commits": list(crashed_at), "sites": list(sites), "final": summ["workflow"]})
                bad = compare_outcome(ref, summ, led, extra_allowed=crashes)
                if bad is not None:
                    return P.fail("C01/crash_run/%s/%s@%s" % (workload, bad[0], "+".join(sites)), {"crashed_at": crashed_at, "sites": sites, **bad[1]})
                q = quiescent_ok(snap)
                if q is not None and ref["summary"]["workflow"] in COMPLETE:
                    return P.fail("C01/crash_run/%s/stuck@%s" % (workload, "+".join(sites)), {"crashed_at": crashed_at, "sites": sites, "why": q})
                return True
            finally:
                w.close()


# ----------------------------------------------------------------------------------------------- monitors
def _valid_transitions() -> dict[str, set[str]]:
    from stabilize.models.status import VALID_TRANSITIONS

    return {k.name: {v.name for v in vs} for k, vs in VALID_TRANSITIONS.items()}


REARM_CTX = {"JumpToStage", "RestartStage"}


def monitor_transitions(w: World) -> tuple[str, Any] | None:
    """C06: every durable status change is in the published table; completed is final except for
    the explicit re-arm done while a JumpToStage / RestartStage message is being handled."""
    table = _valid_transitions()
    for row in w.audit():
        if row["tbl"] == "cancel":
            continue
        old, new, ctx = row["old"], row["new"], row["ctx"] or ""
        if old == new:
            continue
        if new in table.get(old, set()):
            continue
        if ctx in REARM_CTX and row["tbl"] in ("stage", "task"):
            continue
        return ("illegal_transition/%s/%s->%s@%s" % (row["tbl"], old, new, ctx or "outside"), row)
    return None


def monitor_single_start(w: World) -> tuple[str, Any] | None:
    """C02/C04: per stage, NOT_STARTED->RUNNING happens at most once per arming (initial + one per
    re-arm back to NOT_STARTED)."""
    starts: Counter = Counter()
    arms: Counter = Counter()
    for row in w.audit():
        if row["tbl"] != "stage":
            continue
        if row["old"] == "NOT_STARTED" and row["new"] == "RUNNING":
            starts[row["id"]] += 1
        if row["new"] == "NOT_STARTED":
            arms[row["id"]] += 1
    for sid, n in starts.items():
        if n > 1 + arms[sid]:
            return ("stage_started_twice", {"stage": sid, "starts": n, "rearms": arms[sid]})
    return None


def monitor_no_rerun_of_recorded(w: World) -> tuple[str, Any] | None:
    """C02: a task whose result has been recorded is never executed again: at execution time the
    durable task row must be RUNNING (read on a second connection by the harness task)."""
    for e in w.ledger.entries:
        if e["durable_task"] != "RUNNING":
            return ("task_executed_while_%s" % e["durable_task"], {k: e[k] for k in ("ref", "task", "durable_task", "durable_stage", "n")})
        if e["durable_stage"] != "RUNNING":
            return ("task_executed_in_stage_%s" % e["durable_stage"], {k: e[k] for k in ("ref", "task", "durable_task", "durable_stage", "n")})
    return None


def _status_history(w: World) -> dict[str, list[tuple[int, str]]]:
    hist: dict[str, list[tuple[int, str]]] = {}
    for row in w.audit():
        if row["tbl"] == "stage":
            hist.setdefault(row["id"], [(0, "NOT_STARTED")]).append((row["seq"], row["new"]))
    return hist


def _status_at(hist: dict[str, list[tuple[int, str]]], sid: str, seq: int) -> str:
    cur = "NOT_STARTED"
    for s, st in hist.get(sid, [(0, "NOT_STARTED")]):
        if s <= seq:
            cur = st
        else:
            break
    return cur


def monitor_dependencies(w: World, wf_spec: dict[str, dict[str, Any]]) -> tuple[str, Any] | None:
    """C03: when a task of stage S executed, the join condition over S's upstreams held on the
    durable statuses of that moment (audit sequence number recorded in the ledger entry), unless S
    was the explicit target of a jump (its NOT_STARTED re-arm came from a JumpToStage naming it)."""
    hist = _status_history(w)
    jump_targets = set()
    for row in w.qlog():
        if row["op"] == "ins" and row["mtype"] == "JumpToStage":
            try:
                jump_targets.add(json.loads(row["payload"]).get("target_stage_ref_id"))
            except Exception:
                pass
    ids = w.refs
    for e in w.ledger.entries:
        spec = wf_spec.get(e["ref"])
        if not spec or not spec["deps"]:
            continue
        if e["ref"] in jump_targets:
            continue
        ups = [_status_at(hist, ids[d], e["audit_seq"]) for d in spec["deps"]]
        ok_n = sum(1 for u in ups if u in CONTINUABLE or u == "REDIRECT")
        jt = spec["join"]
        if jt == "AND" or (jt == "N_OF_M" and spec["threshold"] <= 0) or jt == "OR":
            need = len(ups)
        elif jt == "N_OF_M":
            need = spec["threshold"]
        else:
            need = 1
        if jt == "OR":
            continue  # activated-branch bookkeeping is not reconstructed here (DESIGN C03 Outside)
        if ok_n < need:
            return ("ran_before_dependencies/%s" % jt, {"stage": e["ref"], "upstreams": dict(zip(spec["deps"], ups)), "need": need})
        if any(u in ("TERMINAL", "CANCELED", "STOPPED") for u in ups) and jt in ("AND",):
            return ("ran_downstream_of_halted", {"stage": e["ref"], "upstreams": dict(zip(spec["deps"], ups))})
    return None


def spec_of(wf: Any) -> dict[str, dict[str, Any]]:
    return {
        s.ref_id: {"deps": sorted(s.requisite_stage_ref_ids), "join": s.join_type.name, "threshold": s.join_threshold}
        for s in wf.stages
    }


MONITORS = {
    "C06": lambda w, spec: monitor_transitions(w),
    "C04": lambda w, spec: monitor_single_start(w),
    "C02": lambda w, spec: monitor_single_start(w) or monitor_no_rerun_of_recorded(w),
    "C03": lambda w, spec: monitor_dependencies(w, spec),
}


def small_view(led: list[tuple[str, str, str]]) -> Counter:
    """Ledger reduced to what is schedule-independent: (stage, task, per-stage unique output keys
    and loop counters seen).  Keys shared by unrelated branches are not path-ordered (C16)."""
    out: Counter = Counter()
    for ref, task, ctx in led:
        c = json.loads(ctx)
        keep = {k: v for k, v in c.items() if k.startswith(("o_", "polls_", "progress_")) or k in ("iter", "from_jump")}
        out[(ref, task, json.dumps(keep, sort_keys=True))] += 1
    return out


# ----------------------------------------------------------------------------------------------- scheduler
MAX_STEPS = 400


def schedule_run(
    prop: str,
    workload: str,
    choices: list[Any],
    noack: list[Any] | None = None,
    inject_at: Any = None,
    inject: Callable[[World], None] | None = None,
    inject2_at: Any = None,
    monitors: tuple[str, ...] = (),
    compare: str = "reference",
    fanout: int = 3,
    events: bool = False,
    post: Callable[[World, dict[str, Any], Any], tuple[str, Any] | None] | None = None,
    ref_tag: str = "",
    ref_pre: Callable[[World], None] | None = None,
    setup: Callable[[World], None] | None = None,
) -> bool:
    """One worker; at choice point i the message delivered next is the choices[i]-th of the
    currently deliverable ones (at most ``fanout`` candidates), left un-acked if noack[i]; an
    injection (sweep, cancel, signal) happens before delivery step inject_at.  After the symbolic
    choices are used up the run continues in the processor's natural order."""
    with hx.Path("schedule:%s:%s" % (prop, workload)) as P:
        with hx.native():
            ref = reference(workload, events, pre=ref_pre, tag=ref_tag) if compare != "none" else None
            w = World(events=events)
            try:
                wf = WORKLOADS[workload]()
                spec = spec_of(wf)
                w.submit(wf)
                if setup is not None:
                    setup(w)
                trace: list[Any] = []
                injected: list[int] = []
                step = 0
                cp = 0  # choice points met so far (steps with more than one deliverable message)
                while step < MAX_STEPS:
                    for sym, tag in ((inject_at, 1), (inject2_at, 2)):
                        if sym is not None and inject is not None and tag not in [t for t, _ in injected_tags(injected)]:
                            if hx.decide_eq(sym, step):
                                injected.append(tag * 100000 + step)
                                inject(w)
                    if not w.make_visible():
                        break
                    now = stubs.CLOCK.peek_ms()
                    vis = [
                        r for r in w.rows()
                        if r["attempts"] < w.queue_max_attempts
                        and r["deliver_ms"] // 1000 <= now // 1000
                        and (r["lock_ms"] is None or r["lock_ms"] // 1000 < now // 1000)
                    ]
                    if not vis:
                        break
                    vis.sort(key=lambda r: (r["deliver_at"], r["id"]))
                    idx = 0
                    if cp < len(choices) and len(vis) > 1:
                        idx = hx.pick(choices[cp], min(len(vis), fanout))
                        cp += 1
                    ack = True
                    if noack is not None and step < len(noack):
                        ack = not hx.decide(noack[step])
                    mtype = w.deliver(vis[idx]["id"], ack=ack)
                    trace.append((idx, len(vis), mtype, ack))
                    step += 1
                if step >= MAX_STEPS:
                    return P.fail("%s/schedule/no_termination" % prop, {"trace": trace[-12:]})
                w.processor._check_dlq()
                snap = w.snapshot()
                summ = summarize(snap)
                nontrivial = any(i != 0 for i, _, _, _ in trace) or any(not a for _, _, _, a in trace) or bool(injected)
                sample = {"workload": workload, "choices": [(i, n) for i, n, _, _ in trace if n > 1][: len(choices)],
                          "noack": [not a for _, _, _, a in trace[: len(noack or [])]], "injected_at": [x % 100000 for x in injected],
                          "steps": step, "final": summ["workflow"]}
                if nontrivial:
                    P.reached(json.dumps([(i, n, a) for i, n, _, a in trace if n > 1 or not a]) + str(injected), sample)
                else:
                    P.reached("fifo", sample)
                for m in monitors:
                    bad = MONITORS[m](w, spec)
                    if bad is not None:
                        return P.fail("%s/schedule/%s" % (prop, bad[0]), {"workload": workload, "trace": trace[:20], "injected": injected, "detail": bad[1]})
                if compare == "reference" and ref is not None:
                    rs = ref["summary"]
                    for fld in ("workflow", "stages", "tasks"):
                        if summ[fld] != rs[fld]:
                            return P.fail("%s/schedule/outcome_%s_differs" % (prop, fld), {"workload": workload, "expected": rs[fld], "got": summ[fld], "trace": trace[:24], "injected": injected, "errors": w.handler_errors[:3]})
                    if small_view(_ledger_view(w)) != small_view(ref["ledger"]):
                        a, b = small_view(_ledger_view(w)), small_view(ref["ledger"])
                        return P.fail("%s/schedule/executions_differ" % prop, {"workload": workload, "extra": sorted((a - b).elements())[:4], "missing": sorted((b - a).elements())[:4], "trace": trace[:24], "injected": injected})
                if compare in ("reference", "quiescent"):
                    q = quiescent_ok(snap)
                    if q is not None:
                        return P.fail("%s/schedule/not_quiescent" % prop, {"workload": workload, "why": q, "trace": trace[:24], "injected": injected, "errors": w.handler_errors[:3]})
                if post is not None:
                    bad = post(w, snap, {"trace": trace, "injected": injected, "ref": ref})
                    if bad is not None:
                        return P.fail("%s/schedule/%s" % (prop, bad[0]), {"workload": workload, "trace": trace[:24], "injected": injected, "detail": bad[1]})
                return True
            finally:
                w.close()


def injected_tags(injected: list[int]) -> list[tuple[int, int]]:
    return [(x // 100000, x % 100000) for x in injected]
