"""S1 scenarios: whole-engine runs on the real sqlite whose control variables are symbolic.

Every function here is called from a PEP-316 harness function (harness/Cxx_*.py).  The engine runs
inside ``hx.native()``; each comparison of a symbolic control variable with a concrete counter is
made under tracing (``hx.decide_eq``), i.e. decided by z3, so the paths CrossHair explores are
exactly the distinguishable values of the control variables and "Confirmed over all paths" means
"for every value within the bound".
"""

from __future__ import annotations

import json
from collections import Counter
from typing import Any, Callable

from vf import hx, stubs
from vf.native import HOOKS, WORKLOADS, Crash, World, commit_site, summarize

COMPLETE = {"SUCCEEDED", "FAILED_CONTINUE", "TERMINAL", "CANCELED", "STOPPED", "SKIPPED"}
CONTINUABLE = {"SUCCEEDED", "FAILED_CONTINUE", "SKIPPED"}
WAITING = {"SUSPENDED", "PAUSED", "BUFFERED"}

_REF_CACHE: dict[str, dict[str, Any]] = {}


def _ledger_view(w: World) -> list[tuple[str, str, str]]:
    return [(e["ref"], e["task"], json.dumps(e["ctx"], sort_keys=True)) for e in w.ledger.entries]


def reference(workload: str, events: bool = False, pre: Callable[[World], None] | None = None, tag: str = "") -> dict[str, Any]:
    """FIFO, exactly-once, crash-free run of the workload in this process (cached)."""
    key = workload + ("+ev" if events else "") + tag
    if key in _REF_CACHE:
        return _REF_CACHE[key]
    w = World(events=events)
    try:
        w.submit(WORKLOADS[workload]())
        if pre is not None:
            pre(w)
        steps = w.drain()
        snap = w.snapshot()
        ref = {
            "summary": summarize(snap),
            "ledger": _ledger_view(w),
            "commits": HOOKS.commits,
            "steps": steps,
            "errors": list(w.handler_errors),
            "audit": w.audit(),
            "twin": w.twin_summary(),
        }
    finally:
        w.close()
    _REF_CACHE[key] = ref
    return ref


def quiescent_ok(snap: dict[str, Any]) -> str | None:
    """C05 predicate on a drained world: finished, or explicitly waiting."""
    wf = snap["workflow"]
    st = {k: v["status"] for k, v in snap["stages"].items()}
    if snap["queue"] != 0:
        return "queue not empty (%d) after drain" % snap["queue"]
    if snap["dlq"] != 0:
        return "message in DLQ"
    if wf in COMPLETE:
        running = [k for k, v in st.items() if v == "RUNNING"]
        if running:
            return "workflow %s but stage(s) %s RUNNING" % (wf, running)
        top = {k: v for k, v in st.items() if not k.startswith("syn:")}
        if wf == "SUCCEEDED":
            bad = [k for k, v in top.items() if v not in CONTINUABLE and v != "STOPPED"]  # failPipeline=false: a STOPPED stage does not fail the workflow (by design, O3)
            if bad:
                return "workflow SUCCEEDED but stage(s) %s = %s" % (bad, [top[b] for b in bad])
        if "TERMINAL" in top.values() and wf == "SUCCEEDED":
            return "terminal stage but workflow SUCCEEDED"
        return None
    if wf in WAITING or any(v in WAITING for v in st.values()):
        return None
    return "workflow %s, stages %s, queue empty: silently stuck" % (wf, st)


def post_final_or_waiting(w: World, snap: dict[str, Any], info: dict[str, Any]) -> tuple[str, Any] | None:
    """C05 for runs with an operator pause: finished, or explicitly waiting.  A workflow that is
    PAUSED is waiting for a resume by definition; what its completion messages did meanwhile (they
    are refused while the pause lasts and may exhaust their attempts, DESIGN O10) is not judged."""
    if snap["workflow"] == "PAUSED":
        st = {k: v["status"] for k, v in snap["stages"].items()}
        if any(v == "PAUSED" for v in st.values()):
            return None  # a parked stage: unpause has something to resume
        if all(v in COMPLETE or v == "NOT_STARTED" for v in st.values()) and not any(v == "RUNNING" for v in st.values()):
            return None  # nothing was in flight any more when the pause hit (O10)
        if snap["queue"] != 0:
            return None  # messages still waiting for their delivery time / attempts
        # paused, nothing parked, a stage still RUNNING and nothing queued: no resume can ever continue this run
        return ("paused_with_nothing_parked/%s" % state_sig(summarize(snap)), {"stages": st})
    q = quiescent_ok(snap)
    if q is not None:
        return ("not_quiescent/%s" % state_sig(summarize(snap)), {"why": q})
    return None


def compare_outcome(ref: dict[str, Any], got_summary: dict[str, Any], got_ledger: list[tuple[str, str, str]], extra_allowed: int) -> tuple[str, Any] | None:
    rs = ref["summary"]
    if got_summary["workflow"] != rs["workflow"]:
        return ("workflow_status", {"expected": rs["workflow"], "got": got_summary["workflow"], "stages": got_summary["stages"]})
    if got_summary["stages"] != rs["stages"]:
        return ("stage_status", {"expected": rs["stages"], "got": got_summary["stages"]})
    if got_summary["tasks"] != rs["tasks"]:
        return ("task_status", {"expected": rs["tasks"], "got": got_summary["tasks"]})
    if got_summary["queue"] != 0 or got_summary["dlq"] != 0:
        return ("stranded_message", {"queue": got_summary["queue"], "dlq": got_summary["dlq"]})
    rc = Counter(ref["ledger"])
    gc = Counter(got_ledger)
    missing = rc - gc
    if missing:
        return ("missing_execution_or_context", {"missing": sorted(missing.elements())[:3], "got": sorted(gc.elements())[:8]})
    extra = gc - rc
    n_extra = sum(extra.values())
    if n_extra > extra_allowed:
        return ("extra_executions", {"extra": sorted(extra.elements())[:4], "allowed": extra_allowed})
    unknown = [e for e in extra if (e[0], e[1]) not in {(r[0], r[1]) for r in rc}]
    if unknown:
        return ("unexpected_task_executed", {"extra": unknown[:3]})
    return None


# ----------------------------------------------------------------------------------------------- C01
def crash_run(
    workload: str,
    k1: Any,
    k2: Any = None,
    events: bool = False,
    sweeps: int = 1,
    prop: str = "C01",
    monitors: tuple[str, ...] = (),
    compare: bool = True,
    play: Callable[[World, dict[str, Any]], None] | None = None,
    ref_tag: str = "",
    post: Callable[[World, dict[str, Any], Any], tuple[str, Any] | None] | None = None,
    held_lock: bool = False,
) -> bool:
    """Kill the worker at durable commit number k1 (and the restarted worker at its commit number
    k2), restart (all in-memory state dropped), lock expiry, recovery sweep(s), drain; compare with
    the uninterrupted run.  ``play(w, state)`` drives a run (default: drain); it is called again
    after each restart and must be resumable."""
    with hx.Path("crash_run:" + workload) as P:
        with hx.native():
            if play is None:
                def play(w: World, state: dict[str, Any]) -> None:  # type: ignore[misc]
                    w.drain()
            ref = reference(workload, events, pre=(lambda w: play(w, {})) if ref_tag else None, tag=ref_tag)
            w = World(events=events)
            try:
                crashes = 0
                crashed_at: list[int] = []
                sites: list[str] = []
                state: dict[str, Any] = {}

                def hook_factory(sym: Any) -> Callable[[Any], None]:
                    base = HOOKS.commits

                    def hook(conn: Any) -> None:
                        if state.get("client"):
                            return  # a commit made by the client (signal sender), not by the worker
                        n = HOOKS.commits - base - state.get("client_commits", 0)
                        if hx.decide_eq(sym, n):
                            crashed_at.append(n)
                            sites.append(commit_site())
                            HOOKS.dead = True
                            raise Crash()

                    return hook

                wf = WORKLOADS[workload]()
                spec = spec_of(wf)
                w.submit(wf)  # the submitter is not the worker: no crash here
                HOOKS.on_commit = hook_factory(k1)
                try:
                    play(w, state)
                except Crash:
                    crashes += 1
                HOOKS.on_commit = None
                if crashes:
                    # held_lock: another worker takes over at once - the dead worker's queue lock still holds and its
                    # un-acked message comes back only after everything else has been handled
                    w.restart(expire_locks=not held_lock)
                    state["client_commits"] = 0
                    if k2 is not None:
                        HOOKS.on_commit = hook_factory(k2)
                    try:
                        for _ in range(sweeps):
                            w.processor.run_recovery()
                        play(w, state)
                    except Crash:
                        crashes += 1
                    HOOKS.on_commit = None
                    if crashes == 2:
                        w.restart()
                        for _ in range(sweeps):
                            w.processor.run_recovery()
                        play(w, state)
                snap = w.snapshot()
                summ = summarize(snap)
                led = _ledger_view(w)
                if crashes:
                    P.reached("%s@%s" % (workload, crashed_at), {"workload": workload, "crash_commits": list(crashed_at), "sites": list(sites), "final": summ["workflow"]})
                site = "+".join(sites)
                for m in monitors:
                    badm = MONITORS[m](w, spec)
                    if badm is not None:
                        return P.fail("%s/crash_run/%s/%s@%s" % (prop, workload, badm[0], site), {"crashed_at": crashed_at, "sites": sites, "detail": badm[1]})
                if compare:
                    bad = compare_outcome(ref, summ, led, extra_allowed=crashes)
                    if bad is not None:
                        return P.fail("%s/crash_run/%s@%s" % (prop, bad[0], site), {"workload": workload, "crashed_at": crashed_at, "sites": sites, **bad[1]})
                    q = quiescent_ok(snap)
                    if q is not None:
                        return P.fail("%s/crash_run/stuck@%s" % (prop, site), {"workload": workload, "crashed_at": crashed_at, "sites": sites, "why": q})
                if post is not None:
                    badp = post(w, snap, {"crashed_at": crashed_at, "sites": sites, "injected": [1]})
                    if badp is not None:
                        return P.fail("%s/crash_run/%s/%s@%s" % (prop, workload, badp[0], site), {"crashed_at": crashed_at, "sites": sites, "detail": badp[1]})
                return True
            finally:
                w.close()


def crash_sweeps_run(workload: str, k1: Any) -> bool:
    """C10, crash half: kill the worker at commit k1, restart, then run the recovery sweep once
    (run A) or twice in a row (run B); both must end in the same final state with the same
    executions."""
    with hx.Path("crash_sweeps:" + workload) as P:
        with hx.native():
            outcomes = []
            crashed_n: list[int] = []
            site: list[str] = []
            for sweeps in (1, 2):
                w = World()
                try:
                    w.submit(WORKLOADS[workload]())
                    base = HOOKS.commits

                    def hook(conn: Any) -> None:
                        n = HOOKS.commits - base
                        if (crashed_n and n == crashed_n[0] and sweeps == 2) or (sweeps == 1 and hx.decide_eq(k1, n)):
                            if sweeps == 1:
                                crashed_n.append(n)
                                site.append(commit_site())
                            HOOKS.dead = True
                            raise Crash()

                    HOOKS.on_commit = hook
                    crashed = False
                    try:
                        w.drain()
                    except Crash:
                        crashed = True
                    HOOKS.on_commit = None
                    if not crashed:
                        return True  # k1 beyond the last commit: nothing to compare
                    w.restart()
                    for _ in range(sweeps):
                        w.processor.run_recovery()
                    w.drain()
                    snap = w.snapshot()
                    outcomes.append((summarize(snap), Counter(_ledger_view(w)), quiescent_ok(snap)))
                finally:
                    w.close()
            P.reached("%s@%s" % (workload, crashed_n), {"workload": workload, "crash_commit": crashed_n, "site": site})
            (sa, la, qa), (sb, lb, qb) = outcomes
            for fld in ("workflow", "stages", "tasks", "queue", "dlq"):
                if sa[fld] != sb[fld]:
                    return P.fail("C10/crash_sweeps/%s_differs@%s" % (fld, site[0]), {"workload": workload, "crashed_at": crashed_n, "one_sweep": sa[fld], "two_sweeps": sb[fld]})
            if la != lb:
                return P.fail("C10/crash_sweeps/executions_differ@%s" % site[0], {"workload": workload, "crashed_at": crashed_n, "only_once": sorted((la - lb).elements())[:3], "only_twice": sorted((lb - la).elements())[:3]})
            return True


def post_suspend_stays(w: World, snap: dict[str, Any], info: dict[str, Any]) -> tuple[str, Any] | None:
    runs = [e for e in w.ledger.entries if e["ref"] == "w"]
    wst = snap["stages"]["w"]["status"]
    if wst != "SUSPENDED" or snap["workflow"] != "RUNNING" or snap["queue"] != 0:
        return ("suspended_stage_did_not_stay_suspended/%s" % wst, {"w": wst, "workflow": snap["workflow"], "queue": snap["queue"], "runs": len(runs)})
    if not 1 <= len(runs) <= 2:
        return ("suspending_task_runs=%d" % len(runs), {"runs": len(runs)})
    return None


def post_signal_crash(persistent: bool) -> Callable[[World, dict[str, Any], Any], tuple[str, Any] | None]:
    def post(w: World, snap: dict[str, Any], info: dict[str, Any]) -> tuple[str, Any] | None:
        runs = [e for e in w.ledger.entries if e["ref"] == "w"]
        wst = snap["stages"]["w"]["status"]
        extra = 1 if info["crashed_at"] else 0
        if wst != "SUCCEEDED" or snap["workflow"] != "SUCCEEDED":
            return ("signal_lost_or_not_resumed/%s" % wst, {"w": wst, "workflow": snap["workflow"], "runs": len(runs)})
        if not 2 <= len(runs) <= 2 + extra:
            return ("resumed_runs=%d" % len(runs), {"runs": len(runs)})
        sigs = [e.get("signal") for e in runs if e.get("signal")]
        if not sigs or any(sg != ["go", {"v": 7}] for sg in sigs):
            return ("payload_differs", {"seen": sigs})
        if len(sigs) > 1 + extra:
            return ("signal_consumed_more_than_once", {"seen": sigs})
        zr = [e for e in w.ledger.entries if e["ref"] == "z"]
        if not 1 <= len(zr) <= 1 + extra:
            return ("downstream_runs=%d" % len(zr), {"runs": len(zr)})
        return None

    return post


def signal_crash_run(k1: Any, persistent: bool) -> bool:
    """Suspend workload; the signal is sent once the stage is durably suspended; the worker is
    killed at commit k1 of the whole run (suspend step, resume step, everything in between)."""
    inj = make_inject_signal(persistent)

    def play(w: World, state: dict[str, Any]) -> None:
        w.drain()
        if not state.get("sent"):
            state["client"] = True
            before = HOOKS.commits
            try:
                inj(w)
            finally:
                state["client"] = False
            state["client_commits"] = state.get("client_commits", 0) + (HOOKS.commits - before)
            state["sent"] = True
        w.drain()

    return crash_run("suspend", k1, prop="C18", play=play, compare=False, post=post_signal_crash(persistent))


# ----------------------------------------------------------------------------------------------- monitors
def _valid_transitions() -> dict[str, set[str]]:
    from stabilize.models.status import VALID_TRANSITIONS

    return {k.name: {v.name for v in vs} for k, vs in VALID_TRANSITIONS.items()}


REARM_CTX = {"JumpToStage", "RestartStage"}


def monitor_transitions(w: World) -> tuple[str, Any] | None:
    """C06: every durable status change is in the published table; completed is final except for
    the explicit re-arm done while a JumpToStage / RestartStage message is being handled."""
    table = _valid_transitions()
    last: dict[tuple[str, str], str] = {}
    for row in w.audit():
        if row["tbl"] == "cancel":
            continue
        old, new, ctx = row["old"], row["new"], row["ctx"] or ""
        kind = row["tbl"].replace("_ins", "")
        if row["tbl"].endswith("_ins"):
            # a row (re)written by INSERT [OR REPLACE]: a status change if the entity existed before
            prev = last.get((kind, row["id"]))
            last[(kind, row["id"])] = new
            if prev is None or prev == new:
                continue
            old = prev
            row = {**row, "tbl": kind, "old": prev, "note": "row replaced by an INSERT"}
        else:
            last[(kind, row["id"])] = new
        if old == new:
            continue
        if new in table.get(old, set()):
            continue
        if ctx in REARM_CTX and row["tbl"] in ("stage", "task") and new == "NOT_STARTED":
            continue  # the explicit re-arm; anything else a jump writes has to be a legal transition
        if ctx == "RestartStage" and row["tbl"] == "workflow" and old in COMPLETE and new == "RUNNING":
            continue  # an operator restart of a stage re-opens a finished workflow for that run
        return ("illegal_transition/%s/%s->%s@%s" % (row["tbl"], old, new, ctx or "outside"), row)
    return None


def monitor_single_start(w: World) -> tuple[str, Any] | None:
    """C02/C04: per stage, NOT_STARTED->RUNNING happens at most once per arming (initial + one per
    re-arm back to NOT_STARTED)."""
    starts: Counter = Counter()
    arms: Counter = Counter()
    for row in w.audit():
        if row["tbl"] != "stage":
            continue
        if row["old"] == "NOT_STARTED" and row["new"] == "RUNNING":
            starts[row["id"]] += 1
        if row["new"] == "NOT_STARTED":
            arms[row["id"]] += 1
    for sid, n in starts.items():
        if n > 1 + arms[sid]:
            ref = next((r for r, i in w.refs.items() if i == sid), sid)
            return ("stage_started_twice/%s" % ref, {"stage": ref, "starts": n, "rearms": arms[sid]})
    return None


def monitor_single_continuation(w: World) -> tuple[str, Any] | None:
    """C02/C04: a stage is planned once per arming - the StartTask of a task is durably queued at
    most once per NOT_STARTED->RUNNING of its stage (only meaningful in runs without crashes and
    recovery sweeps, which legitimately re-queue)."""
    starts: Counter = Counter()
    for row in w.audit():
        if row["tbl"] == "stage" and row["old"] == "NOT_STARTED" and row["new"] == "RUNNING":
            starts[row["id"]] += 1
    pushed: Counter = Counter()
    stage_of: dict[str, str] = {}
    for row in w.qlog():
        if row["op"] == "ins" and row["q"] == "q" and row["mtype"] == "StartTask":
            try:
                p = json.loads(row["payload"])
            except Exception:
                continue
            pushed[p.get("task_id")] += 1
            stage_of[p.get("task_id")] = p.get("stage_id")
    # every before-stage that completes sends its own ContinueParentStage, and each of them asks for the parent's
    # first task (the duplicates are dropped by StartTask's own guard): allow one StartTask per before-stage
    befores: Counter = Counter()
    for r in w.q("SELECT parent_stage_id FROM stage_executions WHERE parent_stage_id IS NOT NULL AND synthetic_stage_owner = 'STAGE_BEFORE'"):
        befores[r[0]] += 1
    first_tasks = {r[0] for r in w.q("SELECT id FROM task_executions WHERE stage_start = 1")}
    for tid, n in pushed.items():
        sid = stage_of[tid]
        if n > max(1, starts[sid]) * (max(1, befores[sid]) if tid in first_tasks else 1):
            ref = next((r for r, i in w.refs.items() if i == sid), sid)
            return ("StartTask_queued_twice_for_one_start/%s" % ref, {"stage": ref, "task_id": tid, "StartTask_pushed": n, "stage_starts": starts[sid]})
    return None


def monitor_completion_has_execution(w: World) -> tuple[str, Any] | None:
    """C02: a task is durably completed by the regular step (CompleteTask handler) only after its
    body ran in THIS arming: between the task's last -> RUNNING and its completion there is a
    ledger entry of it.  (A stale completion of an earlier loop iteration would complete the re-run
    task without running it.)"""
    names = {r["id"]: (r["stage_id"], r["name"]) for r in w.q("SELECT id, stage_id, name FROM task_executions")}
    refs = {i: r for r, i in w.refs.items()}
    own_stages = {r["id"] for r in w.q("SELECT id FROM stage_executions WHERE execution_id = ?", w.workflow_id)}
    last_running: dict[str, int] = {}
    for row in w.audit():
        if row["tbl"] != "task":
            continue
        if names.get(row["id"], (None, None))[0] not in own_stages:
            continue  # a task of another execution in the same database (noise / twin)
        if row["new"] == "RUNNING":
            last_running[row["id"]] = row["seq"]
        elif row["new"] in ("SUCCEEDED", "FAILED_CONTINUE", "TERMINAL", "STOPPED") and (row["ctx"] or "") == "CompleteTask":
            sid, tname = names.get(row["id"], (None, None))
            ref = refs.get(sid)
            since = last_running.get(row["id"], 0)
            ran = any(e["ref"] == ref and e["task"] == tname and since <= e["audit_seq"] <= row["seq"] for e in w.ledger.entries)
            if not ran:
                return ("task_completed_without_running_in_this_iteration/%s.%s" % (ref, tname), {"stage": ref, "task": tname, "completed_as": row["new"], "running_since_audit_seq": since, "completed_at_audit_seq": row["seq"]})
    return None


def monitor_no_rerun_of_recorded(w: World) -> tuple[str, Any] | None:
    """C02: a task whose result has been recorded is never executed again: at execution time the
    durable task row must be RUNNING (read on a second connection by the harness task)."""
    for e in w.ledger.entries:
        if e["durable_task"] != "RUNNING":
            return ("task_executed_while_%s/%s.%s" % (e["durable_task"], e["ref"], e["task"]), {k: e[k] for k in ("ref", "task", "durable_task", "durable_stage", "n")})
        if e["durable_stage"] != "RUNNING":
            return ("task_executed_in_stage_%s/%s.%s" % (e["durable_stage"], e["ref"], e["task"]), {k: e[k] for k in ("ref", "task", "durable_task", "durable_stage", "n")})
    return None


def _status_history(w: World) -> dict[str, list[tuple[int, str]]]:
    hist: dict[str, list[tuple[int, str]]] = {}
    for row in w.audit():
        if row["tbl"] == "stage":
            hist.setdefault(row["id"], [(0, "NOT_STARTED")]).append((row["seq"], row["new"]))
    return hist


def _status_at(hist: dict[str, list[tuple[int, str]]], sid: str, seq: int) -> str:
    cur = "NOT_STARTED"
    for s, st in hist.get(sid, [(0, "NOT_STARTED")]):
        if s <= seq:
            cur = st
        else:
            break
    return cur


def monitor_dependencies(w: World, wf_spec: dict[str, dict[str, Any]]) -> tuple[str, Any] | None:
    """C03: when a task of stage S executed, the join condition over S's upstreams held on the
    durable statuses of that moment (audit sequence number recorded in the ledger entry), unless S
    was the explicit target of a jump (its NOT_STARTED re-arm came from a JumpToStage naming it)."""
    hist = _status_history(w)
    jump_targets = set()
    for row in w.qlog():
        if row["op"] == "ins" and row["mtype"] == "JumpToStage":
            try:
                jump_targets.add(json.loads(row["payload"]).get("target_stage_ref_id"))
            except Exception:
                pass
    ids = dict(w.refs)
    wf_spec = dict(wf_spec)
    # stages created at plan time (synthetic stages of a builder): dependencies as stored, ledger name "built:<name>"
    rows = w.q("SELECT id, ref_id, name, requisite_stage_ref_ids, join_type, join_threshold FROM stage_executions WHERE execution_id = ?", w.workflow_id)
    known_ids = set(ids.values())
    ref_to_name = {r["ref_id"]: ("built:" + (r["name"] or "")) for r in rows if r["id"] not in known_ids}
    for r in rows:
        if r["id"] in known_ids:
            continue
        try:
            req = json.loads(r["requisite_stage_ref_ids"] or "[]")
        except Exception:
            req = []
        nm = "built:" + (r["name"] or "")
        ids[nm] = r["id"]
        wf_spec[nm] = {"deps": sorted(ref_to_name[q] for q in req if q in ref_to_name), "join": r["join_type"] or "AND", "threshold": r["join_threshold"] or 0}
    # observation points: every task execution (ledger) and every durable NOT_STARTED->RUNNING of a stage
    points: list[tuple[str, int, str]] = [(e["ref"], e["audit_seq"], "task") for e in w.ledger.entries]
    by_id = {v: k for k, v in ids.items()}
    for row in w.audit():
        if row["tbl"] == "stage" and row["old"] == "NOT_STARTED" and row["new"] == "RUNNING" and row["id"] in by_id:
            points.append((by_id[row["id"]], row["seq"], "start"))
    for ref, seq, what in points:
        e = {"ref": ref, "audit_seq": seq}
        spec = wf_spec.get(e["ref"])
        if not spec or not spec["deps"]:
            continue
        if e["ref"] in jump_targets:
            continue
        ups = [_status_at(hist, ids[d], e["audit_seq"]) for d in spec["deps"]]
        ok_n = sum(1 for u in ups if u in CONTINUABLE or u == "REDIRECT")
        jt = spec["join"]
        if jt == "AND" or (jt == "N_OF_M" and spec["threshold"] <= 0) or jt == "OR":
            need = len(ups)
        elif jt == "N_OF_M":
            need = spec["threshold"]
        else:
            need = 1
        if jt == "OR":
            continue  # activated-branch bookkeeping is not reconstructed here (DESIGN C03 Outside)
        if ok_n < need:
            return ("ran_before_dependencies/%s/%s" % (jt, e["ref"]), {"stage": e["ref"], "upstreams": dict(zip(spec["deps"], ups)), "need": need, "observed_at": what})
        if any(u in ("TERMINAL", "CANCELED", "STOPPED") for u in ups) and jt in ("AND",):
            return ("ran_downstream_of_halted/%s" % e["ref"], {"stage": e["ref"], "upstreams": dict(zip(spec["deps"], ups))})
    return None


def _ancestors_of(spec: dict[str, dict[str, Any]], ref: str) -> set[str]:
    seen: set[str] = set()
    todo = list(spec.get(ref, {}).get("deps", []))
    while todo:
        r = todo.pop()
        if r not in seen:
            seen.add(r)
            todo.extend(spec.get(r, {}).get("deps", []))
    return seen


def monitor_dataflow(w: World, wf_spec: dict[str, dict[str, Any]]) -> tuple[str, Any] | None:
    """C16 at engine level, on the keys that are path-ordered by construction (``o_<ref>`` is
    published by stage <ref> only): the context handed to a task holds, for every ancestor that had
    completed when the stage was started (a first-of / quorum join starts before all of them have),
    the value of that ancestor's latest execution (the current loop iteration), and holds no
    ``o_<ref>`` of a stage that is not an ancestor."""
    ents = w.ledger.entries
    aud = w.audit()
    ids = w.refs
    starts: dict[str, list[int]] = {}
    completions: dict[str, list[int]] = {}
    rearms: dict[str, list[int]] = {}
    for r in aud:
        if r["tbl"] != "stage":
            continue
        if r["old"] == "NOT_STARTED" and r["new"] == "RUNNING":
            starts.setdefault(r["id"], []).append(r["seq"])
        if r["new"] in COMPLETE:
            completions.setdefault(r["id"], []).append(r["seq"])
        if r["new"] == "NOT_STARTED":
            rearms.setdefault(r["id"], []).append(r["seq"])
    for e in ents:
        ref = e["ref"]
        anc = _ancestors_of(wf_spec, ref)
        ctx = e["ctx"]
        for k in ctx:
            if k.startswith("o_") and k[2:] != ref and k[2:] in wf_spec and k[2:] not in anc:
                return ("sees_output_of_non_ancestor/%s<-%s" % (ref, k[2:]), {"stage": ref, "key": k, "ancestors": sorted(anc)})
        my_starts = [s_ for s_ in starts.get(ids.get(ref, ""), []) if s_ <= e["audit_seq"]]
        if not my_starts:
            continue
        start_seq = my_starts[-1]
        for r in anc:
            done = [c for c in completions.get(ids.get(r, ""), []) if c < start_seq]
            if not done:
                continue  # had not completed when this stage was started
            cseq = done[-1]
            armed = [a_ for a_ in rearms.get(ids.get(r, ""), []) if a_ < cseq]
            since = armed[-1] if armed else 0  # a jump re-armed the ancestor: what it published before that is gone
            last = None
            for p in ents:
                if p["ref"] == r and since <= p["audit_seq"] < cseq and ("o_" + r) in (p.get("out") or {}):
                    last = p
            if last is None:
                if armed and ("o_" + r) in ctx:
                    return ("stale_output_of_rearmed_ancestor/%s<-%s" % (ref, r), {"stage": ref, "ancestor": r, "seen": ctx.get("o_" + r), "note": "the ancestor was re-armed and has not run (or published) since"})
                continue
            want = last["out"]["o_" + r]
            got = ctx.get("o_" + r, "<absent>")
            if got != want:
                what = "missing" if got == "<absent>" else "stale"
                return ("%s_ancestor_output/%s<-%s" % (what, ref, r), {"stage": ref, "task": e["task"], "ancestor": r, "seen": got, "latest_published": want, "execution": e["n"], "published_at": last["n"]})
    return None


def monitor_join_bookkeeping(w: World, wf_spec: dict[str, dict[str, Any]]) -> tuple[str, Any] | None:
    """C07 at engine level: the read-modify-write of a join stage's ``_completed_branches`` by its
    upstreams' completions never loses an entry - at the end every upstream that finished
    SUCCEEDED is listed (for joins that keep the list; loop-free workloads only)."""
    snap = w.snapshot()
    for ref, sp in wf_spec.items():
        if sp["join"] not in ("DISCRIMINATOR", "N_OF_M", "MULTI_MERGE", "OR"):
            continue
        st = snap["stages"].get(ref)
        if st is None:
            continue
        listed = st["context"].get("_completed_branches")
        if listed is None:
            continue
        done = sorted(d for d in sp["deps"] if snap["stages"].get(d, {}).get("status") == "SUCCEEDED")
        missing = [d for d in done if d not in listed]
        if missing:
            return ("join_bookkeeping_lost_an_upstream/%s" % ref, {"join": ref, "listed": listed, "succeeded_upstreams": done, "missing": missing})
        if len(listed) != len(set(listed)):
            return ("join_bookkeeping_duplicate/%s" % ref, {"join": ref, "listed": listed})
    return None


def spec_of(wf: Any) -> dict[str, dict[str, Any]]:
    return {
        s.ref_id: {"deps": sorted(s.requisite_stage_ref_ids), "join": s.join_type.name, "threshold": s.join_threshold}
        for s in wf.stages
    }


MONITORS = {
    "C06": lambda w, spec: monitor_transitions(w),
    "C04": lambda w, spec: monitor_single_start(w),
    "C02": lambda w, spec: monitor_single_start(w) or monitor_no_rerun_of_recorded(w),
    "C03": lambda w, spec: monitor_dependencies(w, spec),
    "C16": lambda w, spec: monitor_dataflow(w, spec),
    "C02x": lambda w, spec: monitor_single_continuation(w),
    "C02y": lambda w, spec: monitor_completion_has_execution(w),
    "C07j": lambda w, spec: monitor_join_bookkeeping(w, spec),
}


def small_view(led: list[tuple[str, str, str]]) -> Counter:
    """Ledger reduced to what is schedule-independent: (stage, task, per-stage unique output keys
    and loop counters seen).  Keys shared by unrelated branches are not path-ordered (C16)."""
    out: Counter = Counter()
    for ref, task, ctx in led:
        c = json.loads(ctx)
        keep = {k: v for k, v in c.items() if k.startswith(("o_", "polls_", "progress_")) or k in ("iter", "from_jump")}
        out[(ref, task, json.dumps(keep, sort_keys=True))] += 1
    return out


# ----------------------------------------------------------------------------------------------- scheduler
MAX_STEPS = 400


def schedule_run(
    prop: str,
    workload: str,
    choices: list[Any],
    noack: list[Any] | None = None,
    inject_at: Any = None,
    inject: Callable[[World], None] | None = None,
    inject2_at: Any = None,
    monitors: tuple[str, ...] = (),
    compare: str = "reference",
    fanout: int = 3,
    events: bool = False,
    post: Callable[[World, dict[str, Any], Any], tuple[str, Any] | None] | None = None,
    ref_tag: str = "",
    ref_pre: Callable[[World], None] | None = None,
    setup: Callable[[World], None] | None = None,
    window_at: Any = None,
    lock_seconds: float = 60.0,
    window_after_inject: bool = False,
    inject2: Callable[[World], None] | None = None,
    hold_at: Any = None,
    hold_idx: Any = None,
    hold_for: Any = None,
    inject2_when_quiet: bool = False,
    twin: str | None = None,
) -> bool:
    """One worker; at choice point i the message delivered next is the choices[i]-th of the
    currently deliverable ones (at most ``fanout`` candidates), left un-acked if noack[i]; an
    injection (sweep, cancel, signal) happens before delivery step inject_at.  After the symbolic
    choices are used up the run continues in the processor's natural order."""
    with hx.Path("schedule:%s:%s" % (prop, workload if isinstance(workload, str) else "dynamic")) as P:
        with hx.native():
            if not isinstance(workload, str):
                workload = workload()  # a workload chosen by symbolic parameters, decoded inside this path
            if twin is not None and ref_pre is None:
                # a second live execution (workload ``twin``) runs in the same database, in the reference run as well
                ref_pre = lambda w_: w_.submit_twin(WORKLOADS[twin]())  # noqa: E731
                ref_tag = ref_tag + "+twin:" + twin
            ref = reference(workload, events, pre=ref_pre, tag=ref_tag) if compare != "none" else None
            w = World(events=events, lock_seconds=lock_seconds)
            try:
                wf = WORKLOADS[workload]()
                spec = spec_of(wf)
                w.submit(wf)
                if twin is not None:
                    w.submit_twin(WORKLOADS[twin]())
                if setup is not None:
                    setup(w)
                trace: list[Any] = []
                injected: list[int] = []
                step = 0
                cp = 0  # symbolic choices used so far
                cp_seen = 0  # choice points met so far (steps with more than one deliverable message)
                w0: int | None = None
                held: list[Any] = [None]
                held_until = [10 ** 9]
                hold_seen = [0]
                while step < MAX_STEPS:
                    for sym, tag in ((inject_at, 1), (inject2_at, 2)):
                        if sym is not None and inject is not None and tag not in [t for t, _ in injected_tags(injected)]:
                            if hx.decide_eq(sym, step):
                                injected.append(tag * 100000 + step)
                                (inject2 if (tag == 2 and inject2 is not None) else inject)(w)
                    def _late_second() -> bool:
                        # the run went quiet after the first injection and before the second: the operator acts now
                        tags = [t for t, _ in injected_tags(injected)]
                        if inject2_when_quiet and inject2 is not None and 1 in tags and 2 not in tags:
                            injected.append(2 * 100000 + step)
                            inject2(w)
                            return True
                        return False

                    if not w.make_visible():
                        if _late_second():
                            continue
                        break
                    now = stubs.CLOCK.peek_ms()
                    vis = [
                        r for r in w.rows()
                        if r["attempts"] < w.queue_max_attempts
                        and r["deliver_ms"] // 1000 <= now // 1000
                        and (r["lock_ms"] is None or r["lock_ms"] // 1000 < now // 1000)
                    ]
                    if not vis:
                        if _late_second():
                            continue
                        break
                    vis.sort(key=lambda r: (r["deliver_at"], r["id"]))
                    # "late message": at choice point hold_at the hold_idx-th deliverable message is held back
                    # and delivered only when nothing else is deliverable (a slow consumer / delayed redelivery)
                    all_injected = len(injected) >= (1 if inject_at is not None else 0) + (1 if inject2_at is not None else 0)
                    if hold_at is not None and held[0] is None and len(vis) > 1 and (not window_after_inject or all_injected):
                        if hx.decide_eq(hold_at, hold_seen[0]):
                            held[0] = vis[hx.pick(hold_idx, min(len(vis), fanout))]["id"]
                            # released after hold_for further deliveries (1..8), or when nothing else is deliverable
                            held_until[0] = step + (1 + hx.pick(hold_for, 8) if hold_for is not None else 10 ** 9)
                        hold_seen[0] += 1
                    if held[0] is not None and len(vis) > 1 and step < held_until[0]:
                        vis = [r for r in vis if r["id"] != held[0]] or vis
                    elif held[0] is not None and step >= held_until[0] and any(r["id"] == held[0] for r in vis):
                        vis = [r for r in vis if r["id"] == held[0]]
                        held_until[0] = -1
                    idx = 0
                    if len(vis) > 1:
                        if window_at is not None and w0 is None:
                            # the window of symbolic choices starts at the choice point the solver picks
                            if hx.decide_eq(window_at, cp_seen):
                                w0 = cp_seen
                        if window_after_inject and not all_injected:
                            pass  # natural order until the injection(s) happened, then the symbolic choices start
                        elif (window_at is None or w0 is not None) and cp < len(choices):
                            idx = hx.pick(choices[cp], min(len(vis), fanout))
                            cp += 1
                        cp_seen += 1
                    ack = True
                    if noack is not None and step < len(noack):
                        ack = not hx.decide(noack[step])
                    mtype = w.deliver(vis[idx]["id"], ack=ack)
                    trace.append((idx, len(vis), mtype, ack))
                    step += 1
                if step >= MAX_STEPS:
                    return P.fail("%s/schedule/%s/no_termination" % (prop, workload), {"trace": trace[-12:]})
                w.processor._check_dlq()
                snap = w.snapshot()
                summ = summarize(snap)
                nontrivial = any(i != 0 for i, _, _, _ in trace) or any(not a for _, _, _, a in trace) or bool(injected) or held[0] is not None
                sample = {"workload": workload, "choices": [(i, n) for i, n, _, _ in trace if n > 1][: len(choices)],
                          "noack": [not a for _, _, _, a in trace[: len(noack or [])]], "injected_at": [x % 100000 for x in injected], "window_at": w0, "held_message_row": held[0],
                          "steps": step, "final": summ["workflow"]}
                if nontrivial:
                    P.reached(json.dumps([(i, n, a) for i, n, _, a in trace if n > 1 or not a]) + str(injected) + str(held[0]), sample)
                else:
                    P.reached("fifo", sample)
                for m in monitors:
                    bad = MONITORS[m](w, spec)
                    if bad is not None:
                        return P.fail("%s/schedule/%s/%s" % (prop, workload, bad[0]), {"workload": workload, "trace": trace[:30], "injected": injected, "detail": bad[1]})
                info = {"workload": workload, "trace": trace[:30], "injected": injected, "errors": w.handler_errors[:3]}
                if compare in ("reference", "counts", "workflow", "stages") and ref is not None:
                    rs = ref["summary"]
                    if summ["workflow"] != rs["workflow"]:
                        return P.fail("%s/schedule/%s/outcome_differs/%s" % (prop, workload, state_sig(summ)), {"expected": rs["workflow"], "got": summ["workflow"], "stages": summ["stages"], "tasks": summ["tasks"], **info})
                    if compare in ("reference", "counts", "stages") and summ["stages"] != rs["stages"]:
                        return P.fail("%s/schedule/%s/stage_outcome_differs/%s" % (prop, workload, state_sig(summ)), {"expected": rs["stages"], "got": summ["stages"], **info})
                    if compare == "reference":
                        a, b = small_view(_ledger_view(w)), small_view(ref["ledger"])
                    else:
                        a = Counter((r, t) for r, t, _ in _ledger_view(w))
                        b = Counter((r, t) for r, t, _ in ref["ledger"])
                    if compare in ("reference", "counts") and a != b:
                        ex, mi = sorted((a - b).elements()), sorted((b - a).elements())
                        sig = "extra=%s,missing=%s" % (sorted({"%s.%s" % (e[0], e[1]) for e in ex}), sorted({"%s.%s" % (e[0], e[1]) for e in mi}))
                        return P.fail("%s/schedule/%s/executions_differ/%s" % (prop, workload, sig.replace(" ", "")), {"extra": ex[:4], "missing": mi[:4], **info})
                if compare in ("reference", "counts", "workflow", "stages", "quiescent"):
                    q = quiescent_ok(snap)
                    if q is not None:
                        return P.fail("%s/schedule/%s/not_quiescent/%s" % (prop, workload, state_sig(summ)), {"why": q, **info})
                if twin is not None:
                    # the other live execution ends exactly as it does next to an undisturbed run of this one
                    want_twin = (ref or reference(workload, events, pre=ref_pre, tag=ref_tag))["twin"]
                    got_twin = w.twin_summary()
                    if got_twin != want_twin:
                        return P.fail("%s/schedule/%s/other_execution_affected/%s" % (prop, workload, (got_twin or {}).get("workflow")), {"workload": workload, "twin": twin, "expected": want_twin, "got": got_twin, "trace": trace[:30], "injected": injected})
                if post is not None:
                    bad = post(w, snap, {"trace": trace, "injected": injected, "ref": ref})
                    if bad is not None:
                        return P.fail("%s/schedule/%s/%s" % (prop, workload, bad[0]), {"workload": workload, "trace": trace[:30], "injected": injected, "detail": bad[1]})
                return True
            finally:
                w.close()


def state_sig(summ: dict[str, Any]) -> str:
    """Abstract shape of a final state: workflow status + the stages/tasks that are not finished."""
    parts = [str(summ["workflow"])]
    for ref in sorted(summ["stages"]):
        st = summ["stages"][ref]
        tasks = [t + "=" + s for t, s in summ["tasks"].get(ref, []) if s not in COMPLETE]
        if st not in COMPLETE or tasks:
            parts.append("%s=%s%s" % (ref, st, ("[" + ",".join(tasks) + "]") if tasks else ""))
    return ":".join(parts)


def injected_tags(injected: list[int]) -> list[tuple[int, int]]:
    return [(x // 100000, x % 100000) for x in injected]


# ----------------------------------------------------------------------------------------------- C10 sweeps
def inject_sweep(w: World) -> None:
    w.processor.run_recovery()


# ----------------------------------------------------------------------------------------------- C17 cancel
def inject_cancel(w: World) -> None:
    wf = w.store.retrieve(w.workflow_id)
    w.orchestrator.cancel(wf, "vf", "cancel requested by harness")


def post_cancel(w: World, snap: dict[str, Any], info: dict[str, Any]) -> tuple[str, Any] | None:
    aud = w.audit()
    cseq = next((r["seq"] for r in aud if r["tbl"] == "cancel" and str(r["new"]) == "1"), None)
    if cseq is None:
        live = [s_ for s_ in getattr(w, "cancel_seen", []) if s_ is not None and s_ not in COMPLETE]
        if live and (snap["workflow"] == "CANCELED" or snap["workflow"] not in COMPLETE):
            # a CancelWorkflow was handled while the workflow was live and the workflow did not finish on its own
            # meanwhile (another worker may complete it between the poll and the handler's decision), yet the
            # cancel flag never became durable: nothing stops tasks from starting afterwards
            return ("cancel_handled_but_flag_not_durable/%s" % live[0], {"workflow_status_when_handled": live[0], "final": snap["workflow"]})
        # the cancel request was never processed (injected after the end, or not injected)
        if info["injected"] and snap["workflow"] not in COMPLETE:
            return ("cancel_not_processed/" + str(snap["workflow"]), {"workflow": snap["workflow"]})
        return None
    in_flight = set(info.get("in_flight_entries") or ())  # task bodies entered by a handler that was already running when the cancel was committed
    late = [e for e in w.ledger.entries if e["canceled"] and e["n"] not in in_flight]
    if late:
        e = late[0]
        return ("task_started_after_cancel/%s.%s" % (e["ref"], e["task"]), {"ref": e["ref"], "task": e["task"], "n": e["n"]})
    hist = _status_history(w)
    wf_done_at_cancel = None
    for r in aud:
        if r["tbl"] == "workflow" and r["seq"] < cseq and r["new"] in COMPLETE:
            wf_done_at_cancel = r["new"]
    st = {k: v for k, v in snap["stages"].items()}
    top = {k: v for k, v in st.items() if v["parent"] is None}
    if snap["workflow"] not in COMPLETE:
        return ("workflow_not_final_after_cancel/" + state_sig(summarize(snap)), {"workflow": snap["workflow"], "stages": {k: v["status"] for k, v in st.items()}})
    thist: dict[str, list[tuple[int, str]]] = {}
    for r in aud:
        if r["tbl"] == "task":
            thist.setdefault(r["id"], [(0, "NOT_STARTED")]).append((r["seq"], r["new"]))
    tasks_of: dict[str, list[str]] = {}
    tname_of: dict[str, str] = {}
    for r in w.q("SELECT id, stage_id, name FROM task_executions"):
        tasks_of.setdefault(r["stage_id"], []).append(r["id"])
        tname_of[r["id"]] = r["name"]

    def in_effect_finished(stage_id: str) -> bool:
        st0 = _status_at(hist, stage_id, cseq)
        if st0 in COMPLETE:
            return True
        tids = tasks_of.get(stage_id, [])
        ref = next((r for r, i in w.refs.items() if i == stage_id), None)
        # a task whose body had already returned its final result before the cancel (completion
        # message still queued) has in effect finished
        ran = {tname_of.get(t) for t in tids if any(
            e["ref"] == ref and e["task"] == tname_of.get(t) and e["audit_seq"] < cseq and e["kind"] in ("ok", "terminal")
            for e in w.ledger.entries)}
        return st0 == "RUNNING" and bool(tids) and all(
            _status_at(thist, t, cseq) in COMPLETE or (_status_at(thist, t, cseq) == "RUNNING" and tname_of.get(t) in ran) for t in tids)

    all_done_before = all(in_effect_finished(v["id"]) for v in top.values())
    if wf_done_at_cancel is None and not all_done_before and snap["workflow"] != "CANCELED":
        # "CANCELED unless it had in effect already finished"; tolerated: a terminal failure that a
        # task had already produced before the cancel was accepted wins over the cancel.
        bad_final = snap["workflow"]
        terminal_before = any(e["kind"] == "terminal" and e["audit_seq"] < cseq for e in w.ledger.entries)
        if not (bad_final == "TERMINAL" and terminal_before):
            return ("workflow_final_not_canceled/%s" % bad_final, {"workflow": bad_final, "at_cancel": {k: _status_at(hist, v["id"], cseq) for k, v in top.items()}})
    for k, v in st.items():
        before = _status_at(hist, v["id"], cseq)
        final = v["status"]
        if final not in COMPLETE and not (before in COMPLETE and final == "NOT_STARTED"):
            return ("stage_not_finished_after_cancel/%s=%s" % (k, final), {"stage": k, "at_cancel": before, "final": final, "tasks": v["tasks"]})
        if wf_done_at_cancel is not None:
            continue
        if before in COMPLETE:
            # may only change through the re-arm of a jump that was already in flight, and then ends canceled
            if final not in (before, "CANCELED", "NOT_STARTED"):
                return ("finished_stage_changed_after_cancel/%s" % k, {"stage": k, "before": before, "after": final})
        elif before == "NOT_STARTED":
            # never started: canceled (or skipped by a forward jump that was already in flight)
            if final not in ("CANCELED", "SKIPPED"):
                return ("unstarted_stage_not_canceled/%s=%s" % (k, final), {"stage": k, "at_cancel": before, "final": final, "tasks": v["tasks"]})
        # a stage that was running may finish in any final status: none of its tasks started after the
        # cancel (checked above), so it ended with the work it had already done
    return None


# ----------------------------------------------------------------------------------------------- C18 signals
def make_inject_signal(persistent: bool, payload: int = 7) -> Callable[[World], None]:
    def inj(w: World) -> None:
        from stabilize.hitl import send_signal

        send_signal(w.queue, w.workflow_id, w.refs["w"], "go", {"v": payload}, persistent=persistent)

    return inj


def make_post_signal(persistent: bool, payload: int = 7) -> Callable[[World, dict[str, Any], Any], tuple[str, Any] | None]:
    def post(w: World, snap: dict[str, Any], info: dict[str, Any]) -> tuple[str, Any] | None:
        runs = [e for e in w.ledger.entries if e["ref"] == "w"]
        sent = bool(info["injected"])
        handled_while = list(w.signal_seen)
        wst = snap["stages"]["w"]["status"]
        if not sent:
            if wst != "SUSPENDED" or len(runs) != 1 or snap["workflow"] != "RUNNING":
                return ("suspended_stage_did_not_stay_suspended/%s" % wst, {"w": wst, "runs": len(runs), "workflow": snap["workflow"]})
            return None
        samples = set(handled_while)
        if not persistent and len(samples) > 1 and "SUSPENDED" in samples:
            # statement-level race: the stage (un)suspended while the signal handler was in flight -
            # the handler may have read either status; both outcomes are "as of when it was handled"
            if len(runs) == 2 and (wst != "SUCCEEDED" or snap["workflow"] != "SUCCEEDED"):
                return ("signal_consumed_but_not_finished/%s" % wst, {"w": wst, "workflow": snap["workflow"], "handled_while": handled_while})
            if len(runs) not in (1, 2):
                return ("signal_transient_runs=%d" % len(runs), {"runs": len(runs), "handled_while": handled_while})
            return None
        effective = persistent or (handled_while and handled_while[0] == "SUSPENDED")
        if effective:
            if len(runs) != 2:
                return ("signal_%s_runs=%d" % ("persistent" if persistent else "transient", len(runs)), {"runs": len(runs), "w": wst, "handled_while": handled_while, "workflow": snap["workflow"]})
            if wst != "SUCCEEDED" or snap["workflow"] != "SUCCEEDED":
                return ("signal_consumed_but_not_finished/%s" % wst, {"w": wst, "workflow": snap["workflow"], "handled_while": handled_while})
            sig = runs[1].get("signal")
            if sig != ["go", {"v": payload}]:
                return ("payload_differs", {"seen": sig})
            left = snap["stages"]["w"]["context"].get("_buffered_signals") or []
            if left:
                return ("signal_still_buffered_after_resume", {"left": left})
        else:
            if len(runs) > 1 and not handled_while:
                return None
            if handled_while and handled_while[0] != "SUSPENDED":
                if len(runs) != 1 or wst != "SUSPENDED":
                    return ("transient_signal_had_effect_while_%s" % handled_while[0], {"runs": len(runs), "w": wst})
        return None

    return post


# ----------------------------------------------------------------------------------------------- C14 transient
DOCUMENTED_ATTEMPT_LIMIT = 10  # Message.max_attempts default; docs: "max 10 attempts"


def transient_run(n_sym: Any, with_ctx: bool, pos: int, ntasks: int, choices: list[Any] | None = None, max_n: int = 14) -> bool:
    """A task that raises TransientError n times then succeeds.  n is symbolic (decoded with
    distinguishing questions), delivery FIFO or under the scheduler."""
    from vf.native import wl_transient

    with hx.Path("transient") as P:
        with hx.native():
            n = 0
            for k in range(1, max_n + 1):
                if hx.decide_eq(n_sym, k):
                    n = k
                    break
            L = DOCUMENTED_ATTEMPT_LIMIT
            w = World()
            try:
                w.submit(wl_transient(n, with_ctx=with_ctx, pos=pos, ntasks=ntasks))
                tname = "t%d" % pos
                step = 0
                cp = 0
                while step < 500:
                    if not w.make_visible():
                        break
                    now = stubs.CLOCK.peek_ms()
                    vis = [r for r in w.rows() if r["attempts"] < w.queue_max_attempts and r["deliver_ms"] // 1000 <= now // 1000
                           and (r["lock_ms"] is None or r["lock_ms"] // 1000 < now // 1000)]
                    if not vis:
                        break
                    vis.sort(key=lambda r: (r["deliver_at"], r["id"]))
                    idx = 0
                    if choices and cp < len(choices) and len(vis) > 1:
                        idx = hx.pick(choices[cp], min(len(vis), 3))
                        cp += 1
                    w.deliver(vis[idx]["id"])
                    step += 1
                    if w.ledger.count("a", tname) > L + 5:
                        break
                execs = [e for e in w.ledger.entries if e["ref"] == "a" and e["task"] == tname]
                snap = w.snapshot()
                P.reached("n=%d ctx=%s pos=%d/%d" % (n, with_ctx, pos, ntasks), {"n": n, "with_ctx": with_ctx, "pos": pos, "executions": len(execs), "workflow": snap["workflow"]})
                expected = min(n, L) + (1 if n < L else 0)
                info = {"n": n, "with_ctx": with_ctx, "pos": pos, "ntasks": ntasks, "executions": len(execs), "expected": expected, "workflow": snap["workflow"], "stage": snap["stages"]["a"]["status"], "tasks": snap["stages"]["a"]["tasks"]}
                if len(execs) > expected:
                    if len(execs) > L:
                        return P.fail("C14/transient/retried_beyond_limit", info)
                    return P.fail("C14/transient/too_many_executions", info)
                if len(execs) < expected:
                    return P.fail("C14/transient/too_few_executions", info)
                if with_ctx:
                    seen = [e.get("progress_seen") for e in execs]
                    if seen != list(range(len(execs))):
                        return P.fail("C14/transient/progress_lost", {**info, "progress_seen": seen})
                if n < L:
                    if snap["workflow"] != "SUCCEEDED" or snap["stages"]["a"]["status"] != "SUCCEEDED":
                        return P.fail("C14/transient/not_succeeded_after_recovering", info)
                else:
                    tstat = dict(snap["stages"]["a"]["tasks"]).get(tname)
                    if tstat != "TERMINAL" or snap["stages"]["a"]["status"] != "TERMINAL" or snap["workflow"] != "TERMINAL":
                        return P.fail("C14/transient/not_terminal_at_limit", info)
                q = quiescent_ok(snap)
                if q is not None:
                    return P.fail("C14/transient/not_quiescent", {**info, "why": q})
                return True
            finally:
                w.close()


def poll_run(n_sym: Any, pos: int, ntasks: int, max_n: int = 6) -> bool:
    """A task that reports RUNNING n times, saving a counter in its context each time."""
    from vf.native import OK, stage, workflow

    with hx.Path("poll") as P:
        with hx.native():
            n = 0
            for k in range(1, max_n + 1):
                if hx.decide_eq(n_sym, k):
                    n = k
                    break
            tasks = {}
            for i in range(1, ntasks + 1):
                tasks["t%d" % i] = {"kind": "poll", "n": n} if i == pos else dict(OK)
            w = World()
            try:
                w.submit(workflow([stage("a", tasks=tasks), stage("b", ["a"])]))
                w.drain()
                tname = "t%d" % pos
                execs = [e for e in w.ledger.entries if e["ref"] == "a" and e["task"] == tname]
                snap = w.snapshot()
                P.reached("poll n=%d pos=%d/%d" % (n, pos, ntasks), {"n": n, "executions": len(execs)})
                seen = [int(e["ctx"].get("polls_" + tname, 0)) for e in execs]
                info = {"n": n, "pos": pos, "executions": len(execs), "polls_seen": seen, "workflow": snap["workflow"]}
                if len(execs) != n + 1:
                    return P.fail("C14/poll/executions", info)
                if seen != list(range(n + 1)):
                    return P.fail("C14/poll/saved_context_lost", info)
                if snap["workflow"] != "SUCCEEDED":
                    return P.fail("C14/poll/not_succeeded", info)
                return True
            finally:
                w.close()


# ----------------------------------------------------------------------------------------------- C15 loops
def loop_shapes() -> dict[str, Any]:
    from vf.native import OK, stage, workflow

    def J(target: str, times: int) -> dict[str, Any]:
        return {"t1": {"kind": "jump", "target": target, "times": times}}

    def selfloop(times: int, ctx: Any) -> Any:
        return workflow([stage("a", tasks=J("a", times)), stage("b", ["a"])], context=ctx), {"a": "loop", "b": "after"}, "a"

    def cycle2(times: int, ctx: Any) -> Any:
        return workflow([stage("t"), stage("x", ["t"], tasks=J("t", times)), stage("z", ["x"])], context=ctx), {"t": "loop", "x": "loop", "z": "after"}, "x"

    def cycle3(times: int, ctx: Any) -> Any:
        return workflow([stage("t"), stage("a", ["t"]), stage("x", ["a"], tasks=J("t", times)), stage("z", ["x"])], context=ctx), {"t": "loop", "a": "loop", "x": "loop", "z": "after"}, "x"

    def cycle4(times: int, ctx: Any) -> Any:
        return workflow([stage("t"), stage("a", ["t"]), stage("b", ["a"]), stage("x", ["b"], tasks=J("t", times)), stage("z", ["x"])], context=ctx), {"t": "loop", "a": "loop", "b": "loop", "x": "loop", "z": "after"}, "x"

    def side_fanin(times: int, ctx: Any) -> Any:
        # r -> t -> x(jump t) ; r -> s (side branch, independent of t) ; z joins x and s.
        return workflow([stage("r"), stage("t", ["r"]), stage("x", ["t"], tasks=J("t", times)), stage("s", ["r"]), stage("z", ["x", "s"])], context=ctx), {"r": "once", "t": "loop", "x": "loop", "s": "once", "z": "after"}, "x"

    def selfloop_policy(policy: dict[str, Any]) -> Any:
        # the looping stage carries a failure policy: spending the jump budget is still a terminal failure of the stage and the workflow
        def build(times: int, ctx: Any) -> Any:
            return workflow([stage("a", tasks=J("a", times), ctx=dict(policy)), stage("b", ["a"])], context=ctx), {"a": "loop", "b": "after"}, "a"

        return build

    return {"selfloop": selfloop, "cycle2": cycle2, "cycle3": cycle3, "cycle4": cycle4, "side_fanin": side_fanin,
            "selfloop_cont": selfloop_policy({"continuePipelineOnFailure": True}), "selfloop_stop": selfloop_policy({"failPipeline": False})}


DEFAULT_MAX_JUMPS_DOC = 10


def loop_run(shape: str, iters_sym: Any, max_jumps: int | None, choices: list[Any] | None = None, max_iters: int = 13) -> bool:
    with hx.Path("loop:" + shape) as P:
        with hx.native():
            iters = 0
            for k in range(1, max_iters + 1):
                if hx.decide_eq(iters_sym, k):
                    iters = k
                    break
            limit = DEFAULT_MAX_JUMPS_DOC if max_jumps is None else max_jumps
            ctx = None if max_jumps is None else {"_max_jumps": max_jumps}
            w = World()  # before the workflow is built: the world resets the id counter
            try:
                wf, roles, source = loop_shapes()[shape](iters, ctx)
                w.submit(wf)
                step = 0
                cp = 0
                while step < 900:
                    if not w.make_visible():
                        break
                    now = stubs.CLOCK.peek_ms()
                    vis = [r for r in w.rows() if r["attempts"] < w.queue_max_attempts and r["deliver_ms"] // 1000 <= now // 1000
                           and (r["lock_ms"] is None or r["lock_ms"] // 1000 < now // 1000)]
                    if not vis:
                        break
                    vis.sort(key=lambda r: (r["deliver_at"], r["id"]))
                    idx = 0
                    if choices and cp < len(choices) and len(vis) > 1:
                        idx = hx.pick(choices[cp], min(len(vis), 3))
                        cp += 1
                    w.deliver(vis[idx]["id"])
                    step += 1
                snap = w.snapshot()
                summ = summarize(snap)
                jumps_handled = sum(1 for m, _ in w.handled if m == "JumpToStage")
                P.reached("%s iters=%d max=%s" % (shape, iters, max_jumps), {"shape": shape, "iters": iters, "max_jumps": max_jumps, "jumps_handled": jumps_handled, "final": summ["workflow"]})
                info = {"shape": shape, "iters": iters, "max_jumps": max_jumps, "limit": limit, "jumps_handled": jumps_handled, "final": summ, "execs": dict(Counter(e["ref"] for e in w.ledger.entries))}
                if step >= 900:
                    return P.fail("C15/loop/%s/no_termination" % shape, info)
                done = min(iters, limit)  # jumps actually performed
                exhausted = iters > limit
                execs = Counter(e["ref"] for e in w.ledger.entries)
                for ref, role in roles.items():
                    want = {"loop": done + 1, "once": 1, "after": 0 if exhausted else 1}[role]
                    if execs.get(ref, 0) != want:
                        return P.fail("C15/loop/%s/executions/%s" % (shape, ref), {**info, "stage": ref, "want": want, "got": execs.get(ref, 0)})
                if exhausted:
                    if summ["stages"][source] != "TERMINAL" or summ["workflow"] != "TERMINAL":
                        return P.fail("C15/loop/%s/budget_spent_but_not_terminal" % shape, info)
                else:
                    if summ["workflow"] != "SUCCEEDED" or any(v != "SUCCEEDED" for v in summ["stages"].values()):
                        return P.fail("C15/loop/%s/not_succeeded" % shape, info)
                q = quiescent_ok(snap)
                if q is not None:
                    return P.fail("C15/loop/%s/not_quiescent" % shape, {**info, "why": q})
                bad = monitor_no_rerun_of_recorded(w)
                if bad is not None:
                    return P.fail("C15/loop/%s/%s" % (shape, bad[0]), {**info, "detail": bad[1]})
                return True
            finally:
                w.close()


def forward_jump_run(choices: list[Any]) -> bool:
    """s jumps forward over the diamond (p,q -> m) to e: bypassed stages SKIPPED and never run."""
    with hx.Path("fwdjump") as P:
        ok = schedule_run("C15", "fwdjump", choices, monitors=("C02",), compare="counts")
    return ok


# ----------------------------------------------------------------------------------------------- C09 redelivery
def make_inject_restart_stage(i_sym: Any) -> Callable[[World], None]:
    """Operator restart (Orchestrator.restart -> RestartStage) of the i-th top-level stage of the
    workload (i symbolic)."""
    def inj(w: World) -> None:
        refs = sorted(r for r in w.refs if not r.startswith("syn:"))
        ref = refs[hx.pick(i_sym, len(refs))]
        wf = w.store.retrieve(w.workflow_id)
        w.orchestrator.restart(wf, w.refs[ref])

    return inj


def inject_restart(w: World) -> None:
    """Worker restart without a crash in the middle of a handler: every in-memory structure
    (duplicate filter included) is rebuilt; un-acked messages stay locked until their lock lapses."""
    w.restart(expire_locks=False)


def inject_filter_reset(w: World) -> None:
    from stabilize.queue.dedup import get_deduplicator

    get_deduplicator().reset()


def post_handled_once(w: World, snap: dict[str, Any], info: dict[str, Any]) -> tuple[str, Any] | None:
    """C09: once a handler returned for a message id (its effects and the processed record are
    committed before the next delivery), no later delivery of that id enters a handler again."""
    done: set[str] = set()
    for mid, mtype, ev in w.handler_calls:
        if ev == "enter" and mid in done:
            return ("handled_again_after_commit/%s" % mtype, {"message_id": mid, "type": mtype})
        if ev == "return":
            done.add(mid)
    return None


def dedup_run(workload: str, noack: list[Any], inject_at: Any, what: str, trust: bool, choices: list[Any] | None = None, lock_seconds: float = 1.0) -> bool:
    inj = {"restart": inject_restart, "reset": inject_filter_reset, "none": None}[what]
    mode = {"disc2": "counts", "nofm23": "counts", "diamond_fail": "workflow", "choice": "workflow", "backjump1sib": "stages"}.get(workload, "reference")

    def setup(w: World) -> None:
        if trust:
            w.trust_negative = True
            w.processor.config.dedup_trust_negative_cache = True

    return schedule_run("C09", workload, choices or [], noack=noack, inject_at=inject_at if inj else None, inject=inj,
                        monitors=("C02",), compare=mode, post=post_handled_once, setup=setup, lock_seconds=lock_seconds)


# ----------------------------------------------------------------------------------------------- C11 groups
def inject_claims_sweep(w: World) -> None:
    w.store.cleanup_completed_stage_claims()


def make_post_group(kind: str, members: tuple[str, ...]) -> Callable[[World, dict[str, Any], Any], tuple[str, Any] | None]:
    """mutex: never two members RUNNING after any durable status change, every member runs once;
    choice: exactly one member ever leaves NOT_STARTED for RUNNING, the others end CANCELED."""

    def post(w: World, snap: dict[str, Any], info: dict[str, Any]) -> tuple[str, Any] | None:
        ids = {w.refs[m]: m for m in members}
        cur = {m: "NOT_STARTED" for m in members}
        started: Counter = Counter()
        for row in w.audit():
            if row["tbl"] != "stage" or row["id"] not in ids:
                continue
            m = ids[row["id"]]
            cur[m] = row["new"]
            if row["old"] == "NOT_STARTED" and row["new"] == "RUNNING":
                started[m] += 1
            running = [x for x, s in cur.items() if s == "RUNNING"]
            if kind == "mutex" and len(running) > 1:
                return ("mutex/two_holders_running", {"running": running, "at_audit_seq": row["seq"]})
        final = {m: snap["stages"][m]["status"] for m in members}
        if kind == "mutex":
            for m in members:
                if started[m] != 1 or final[m] != "SUCCEEDED":
                    return ("mutex/waiting_stage_did_not_run/%s=%s" % (m, final[m]), {"final": final, "started": dict(started)})
        else:
            winners = [m for m in members if started[m] >= 1]
            if len(winners) != 1:
                return ("choice/winners=%d" % len(winners), {"started": dict(started), "final": final})
            for m in members:
                if m not in winners and final[m] != "CANCELED":
                    return ("choice/loser_not_canceled/%s=%s" % (m, final[m]), {"final": final})
            if final[winners[0]] != "SUCCEEDED":
                return ("choice/winner_did_not_finish", {"final": final})
        return None

    return post


def post_mutex_hold(w: World, snap: dict[str, Any], info: dict[str, Any]) -> tuple[str, Any] | None:
    """Mutex held for a symbolic time: never two holders; the waiting stage runs once the holder has
    finished - it may give up (TERMINAL, wait budget spent) only while the holder is still unfinished."""
    members = ("m1", "m2")
    ids = {w.refs[m]: m for m in members}
    cur = {m: "NOT_STARTED" for m in members}
    started: Counter = Counter()
    gave_up_while_free = None
    for row in w.audit():
        if row["tbl"] != "stage" or row["id"] not in ids:
            continue
        m = ids[row["id"]]
        other = [x for x in members if x != m][0]
        if row["old"] == "NOT_STARTED" and row["new"] == "RUNNING":
            started[m] += 1
        if row["old"] == "NOT_STARTED" and row["new"] in ("TERMINAL", "CANCELED", "SKIPPED") and cur[other] in COMPLETE:
            gave_up_while_free = {"stage": m, "ended": row["new"], "holder": other, "holder_status": cur[other]}
        cur[m] = row["new"]
        if sum(1 for s_ in cur.values() if s_ == "RUNNING") > 1:
            return ("mutex/two_holders_running", {"at_audit_seq": row["seq"]})
    if gave_up_while_free is not None:
        return ("mutex/waiter_gave_up_after_holder_finished/%s" % gave_up_while_free["ended"], gave_up_while_free)
    final = {m: snap["stages"][m]["status"] for m in members}
    for m in members:
        if final[m] == "SUCCEEDED" and started[m] != 1:
            return ("mutex/started_%d_times/%s" % (started[m], m), {"final": final, "started": dict(started)})
        if final[m] in ("NOT_STARTED", "RUNNING"):
            return ("mutex/waiting_stage_did_not_run/%s=%s" % (m, final[m]), {"final": final, "started": dict(started)})
    return None


def mutex_hold_run(n_sym: Any, choices: list[Any]) -> bool:
    """C11 liveness half: the holder keeps the mutex for n polls (n symbolic, 0..MUTEX_HOLD_MAX: below, at and
    beyond the waiter's wait budget); delivery with the given symbolic choices."""
    from vf.native import MUTEX_HOLD_MAX

    def pick_workload() -> str:
        n = 0
        for k in range(1, MUTEX_HOLD_MAX + 1):
            if hx.decide_eq(n_sym, k):
                n = k
                break
        return "mutex_hold_%d" % n

    return schedule_run("C11", pick_workload, choices, compare="none", post=post_mutex_hold)  # type: ignore[arg-type]


def post_signal_restart(w: World, snap: dict[str, Any], info: dict[str, Any]) -> tuple[str, Any] | None:
    """One persistent signal and an operator restart of some stage: the signal is delivered to exactly
    one execution of the suspending task (not lost by the re-arm, not delivered again after it)."""
    sent = any(tag == 1 for tag, _ in injected_tags(info["injected"]))
    if not sent:
        return None
    runs = [e for e in w.ledger.entries if e["ref"] == "w"]
    seen = [e for e in runs if e.get("signal") == ["go", {"v": 7}]]
    left = snap["stages"]["w"]["context"].get("_buffered_signals") or []
    detail = {"runs_of_suspending_task": len(runs), "runs_that_saw_the_signal": len(seen), "w": snap["stages"]["w"]["status"], "workflow": snap["workflow"], "still_buffered": len(left)}
    if len(seen) > 1:
        return ("signal_delivered_twice", detail)
    if not seen and not (left and snap["stages"]["w"]["status"] != "SUSPENDED"):
        return ("signal_lost/%s" % snap["stages"]["w"]["status"], detail)
    return None


def post_two_signals(w: World, snap: dict[str, Any], info: dict[str, Any]) -> tuple[str, Any] | None:
    """Two identical persistent signals, a stage that needs two resumes: each signal is consumed
    exactly once and resumes the stage exactly once."""
    sent = len(info["injected"])
    runs = [e for e in w.ledger.entries if e["ref"] == "w"]
    wst = snap["stages"]["w"]["status"]
    left = snap["stages"]["w"]["context"].get("_buffered_signals") or []
    detail = {"signals_sent": sent, "runs_of_suspending_task": len(runs), "stage": wst, "workflow": snap["workflow"], "still_buffered": len(left)}
    if sent == 2:
        if len(runs) != 3 or wst != "SUCCEEDED" or snap["workflow"] != "SUCCEEDED" or left:
            return ("two_signals/resumes=%d/%s" % (len(runs) - 1, wst), detail)
    elif sent == 1:
        if len(runs) != 2 or wst != "SUSPENDED" or left:
            return ("one_of_two_signals/resumes=%d/%s" % (len(runs) - 1, wst), detail)
    return None


# ----------------------------------------------------------------------------------------------- C12 replay
def _event_rows(w: World) -> list[dict[str, Any]]:
    return [dict(r) for r in w.q("SELECT sequence, event_id, event_type, entity_type, entity_id, workflow_id, data FROM events ORDER BY sequence")]


def _jump_marked(w: World) -> set[str]:
    """ids of stages/tasks whose LAST durable status was force-written while a JumpToStage /
    RestartStage was handled ("force-marked by a jump": outside the log).  An entity that a jump
    re-armed and that then went through the regular start / complete steps again is inside."""
    last: dict[str, str] = {}
    for r in w.audit():
        if r["tbl"] in ("stage", "task"):
            last[r["id"]] = r["ctx"] or ""
    return {i for i, ctx in last.items() if ctx in REARM_CTX}


def make_post_replay(q_sym: Any, p_sym: Any) -> Callable[[World, dict[str, Any], Any], tuple[str, Any] | None]:
    def post(w: World, snap: dict[str, Any], info: dict[str, Any]) -> tuple[str, Any] | None:
        from stabilize.events.replay import EventReplayer, WorkflowState
        from stabilize.events.snapshots import SnapshotStore

        es = w.event_store
        wid = w.workflow_id
        rep = EventReplayer(es)
        full = rep.rebuild_workflow_state(wid)
        marked = _jump_marked(w)
        # (1) replay == store on every entity that went through the regular lifecycle steps
        if full["status"] != snap["workflow"] and not (full["status"] in (None, "RUNNING") and snap["workflow"] in ("RUNNING", "NOT_STARTED")):
            return ("replay/workflow_status_differs/%s_vs_%s" % (full["status"], snap["workflow"]), {"replayed": full["status"], "stored": snap["workflow"]})
        durable_stage = {v["id"]: v["status"] for v in snap["stages"].values()}
        foreign = {r["id"] for r in w.q("SELECT id FROM stage_executions WHERE execution_id != ?", wid)}
        for sid in full["stages"]:
            if sid in foreign:
                return ("replay/stage_of_another_execution_in_this_log", {"stage": sid})
        for sid, st in full["stages"].items():
            if sid in marked or sid not in durable_stage:
                continue
            if st.get("status") != durable_stage[sid]:
                ref = next((r for r, i in w.refs.items() if i == sid), sid)
                return ("replay/stage_status_differs/%s/%s_vs_%s" % (ref, st.get("status"), durable_stage[sid]), {"stage": ref, "replayed": st.get("status"), "stored": durable_stage[sid]})
        for sid, dst in durable_stage.items():
            if sid in marked or dst in ("NOT_STARTED",):
                continue
            if sid not in full["stages"]:
                ref = next((r for r, i in w.refs.items() if i == sid), sid)
                return ("replay/stage_missing_from_log/%s=%s" % (ref, dst), {"stage": ref, "stored": dst})
        for trow in w.q("SELECT t.id AS id, t.status AS status FROM task_executions t JOIN stage_executions s ON s.id = t.stage_id WHERE s.execution_id = ?", wid):
            tid, tst = trow["id"], trow["status"]
            if tid in marked or tst in ("NOT_STARTED", "SKIPPED", "CANCELED", "REDIRECT"):
                continue  # skipped/canceled/redirect tasks are not part of the regular task events
            rt = full["tasks"].get(tid, {}).get("status")
            if rt != tst:
                return ("replay/task_status_differs/%s_vs_%s" % (rt, tst), {"task": tid, "replayed": rt, "stored": tst})
        # (2) time travel: as_of q == folding exactly the events with sequence <= q
        rows = _event_rows(w)
        seqs = [r["sequence"] for r in rows if r["workflow_id"] == wid]
        n = len(seqs)
        qi = 0
        for k in range(1, n + 1):
            if hx.decide_eq(q_sym, k):
                qi = k
                break
        q = seqs[qi - 1] if qi else 0
        got = rep.rebuild_workflow_state(wid, as_of_sequence=q)
        ref_state = WorkflowState(workflow_id=wid)
        for ev in es.get_events_for_workflow(wid, 0):
            if ev.sequence <= q:
                rep._apply_event(ref_state, ev)
        want = ref_state.to_dict()
        for fld in ("status", "stages", "tasks", "context"):
            if got[fld] != want[fld]:
                return ("replay/as_of_prefix_differs/%s" % fld, {"as_of": q, "events": n})
        # also: the prefix state must not know anything that happened later
        later = {r["entity_id"] for r in rows if r["sequence"] > q} - {r["entity_id"] for r in rows if r["sequence"] <= q}
        if later & (set(got["stages"]) | set(got["tasks"])):
            return ("replay/as_of_leaks_future_events", {"as_of": q})
        # (3) snapshot at p + tail == full replay
        pi = 0
        for k in range(1, n + 1):
            if hx.decide_eq(p_sym, k):
                pi = k
                break
        p = seqs[pi - 1] if pi else 0
        if p:
            at_p = rep.rebuild_workflow_state(wid, as_of_sequence=p)
            ss = SnapshotStore(es)
            ss.create_workflow_snapshot({k: at_p[k] for k in ("status", "application", "name", "context", "stages", "tasks")}, wid, version=1, sequence=p)
            rep2 = EventReplayer(es, ss)
            with_snap = rep2.rebuild_workflow_state(wid)
            for fld in ("status", "stages", "tasks", "context"):
                if with_snap[fld] != full[fld]:
                    return ("replay/snapshot_plus_tail_differs/%s" % fld, {"snapshot_at": p, "events": n})
            # the same replayer / snapshot store asked again, for the prefix q and for the whole log:
            # answers do not depend on what was rebuilt before
            again_q = rep2.rebuild_workflow_state(wid, as_of_sequence=q)
            for fld in ("status", "stages", "tasks", "context"):
                if again_q[fld] != want[fld]:
                    return ("replay/as_of_after_full_rebuild_differs/%s" % fld, {"snapshot_at": p, "as_of": q, "events": n})
            again_full = rep2.rebuild_workflow_state(wid)
            for fld in ("status", "stages", "tasks", "context"):
                if again_full[fld] != full[fld]:
                    return ("replay/second_full_rebuild_differs/%s" % fld, {"snapshot_at": p, "events": n})
        return None

    return post


def replay_run(workload: str, choices: list[Any], q_sym: Any, p_sym: Any, inject_at: Any = None, inject: Callable[[World], None] | None = None,
               window_after_inject: bool = False, twin: str | None = None) -> bool:
    return schedule_run("C12", workload, choices, compare="none", events=True, post=make_post_replay(q_sym, p_sym), inject_at=inject_at, inject=inject,
                        window_after_inject=window_after_inject, twin=twin)


# ----------------------------------------------------------------------------------------------- C13 events + state
COMPLETION_EVENTS = {"stage.completed", "stage.failed", "task.completed", "task.failed"}


def check_event_state_consistency(w: World, when: str) -> tuple[str, Any] | None:
    """No completion/failure event for an entity whose completion is not durable; no entity completed
    by the regular task/stage completion step without its event; bus notifications only for durable
    events; sequence numbers unique and increasing."""
    rows = _event_rows(w)
    seqs = [r["sequence"] for r in rows]
    if seqs != sorted(set(seqs)):
        return ("events/sequence_not_unique_increasing/%s" % when, {"sequences": seqs[-6:]})
    stage_status = {r["id"]: r["status"] for r in w.q("SELECT id, status FROM stage_executions")}
    task_status = {r["id"]: r["status"] for r in w.q("SELECT id, status FROM task_executions")}
    marked = _jump_marked(w)
    last_completion: dict[str, str] = {}
    for r in rows:
        if r["event_type"] in COMPLETION_EVENTS:
            try:
                st = json.loads(r["data"]).get("status")
            except Exception:
                st = None
            last_completion[r["entity_id"]] = st or "?"
    rearmed = {r["id"] for r in w.audit() if r["new"] == "NOT_STARTED"}
    for eid, st in last_completion.items():
        cur = stage_status.get(eid, task_status.get(eid))
        if cur is None or eid in rearmed:
            continue
        if cur not in COMPLETE:
            return ("events/completion_event_without_durable_completion/%s" % when, {"entity": eid, "event_status": st, "durable": cur})
    # completed by the regular steps (CompleteTask / CompleteStage handlers) => event present
    for row in w.audit():
        if row["tbl"] in ("stage", "task") and row["new"] in COMPLETE and (row["ctx"] or "") in ("CompleteTask", "CompleteStage"):
            if row["new"] in ("SKIPPED",) and row["tbl"] == "task":
                continue
            if row["id"] in marked:
                continue
            if row["id"] not in last_completion:
                return ("events/durable_completion_without_event/%s/%s" % (row["tbl"], when), {"entity": row["id"], "status": row["new"], "by": row["ctx"]})
    durable_ids = {r["sequence"] for r in rows}
    durable_event_ids = {r["event_id"] for r in rows}
    told: Counter = Counter()
    for ev in w.bus_log:
        eid = getattr(ev, "event_id", None)
        told[eid] += 1
        if getattr(ev, "sequence", None) not in durable_ids or (eid is not None and eid not in durable_event_ids):
            return ("events/subscriber_notified_of_non_durable_event/%s" % when, {"event": str(getattr(ev, "event_type", ev)), "sequence": getattr(ev, "sequence", None), "event_id": eid})
        if eid is not None and told[eid] > 1:
            return ("events/subscriber_notified_twice/%s" % when, {"event": str(getattr(ev, "event_type", ev)), "event_id": eid})
    return None


def event_crash_run(workload: str, k1: Any) -> bool:
    """C13: crash at every commit with the event store in the same database; consistency is checked
    on the crash state itself (after the restart, before recovery) and again after recovery."""
    with hx.Path("event_crash:" + workload) as P:
        with hx.native():
            w = World(events=True)
            try:
                w.submit(WORKLOADS[workload]())
                base = HOOKS.commits
                site: list[str] = []

                def hook(conn: Any) -> None:
                    n = HOOKS.commits - base
                    if hx.decide_eq(k1, n):
                        site.append(commit_site())
                        HOOKS.dead = True
                        raise Crash()

                HOOKS.on_commit = hook
                crashed = False
                try:
                    w.drain()
                except Crash:
                    crashed = True
                HOOKS.on_commit = None
                if crashed:
                    w.restart()
                    P.reached("%s@%s" % (workload, site), {"workload": workload, "site": site})
                    bad = check_event_state_consistency(w, "crash_state")
                    if bad is not None:
                        return P.fail("C13/%s@%s" % (bad[0], site[0]), {"workload": workload, **bad[1]})
                    w.processor.run_recovery()
                    w.drain()
                else:
                    P.reached("no_crash")
                bad = check_event_state_consistency(w, "final")
                if bad is not None:
                    return P.fail("C13/%s@%s" % (bad[0], site[0] if site else "none"), {"workload": workload, **bad[1]})
                return True
            finally:
                w.close()


def event_fault_run(workload: str, step_sym: Any, kind_sym: Any, fresh_thread: bool = False) -> bool:
    """C13: an injected failure inside a handler transaction (exception after the event append /
    optimistic-lock conflict) at delivery step `step`: the rolled-back transaction leaves no event
    and notifies nobody; the retried delivery then records it exactly once."""
    import stabilize.persistence.sqlite.transaction as txmod
    from stabilize.errors import ConcurrencyError

    with hx.Path("event_fault:" + workload) as P:
        with hx.native():
            w = World(events=True)
            orig_mark = txmod.AtomicTransaction.mark_message_processed
            try:
                w.submit(WORKLOADS[workload]())
                kind = hx.pick(kind_sym, 2)
                step = 0
                armed = {"on": False, "fired": 0}

                def faulty(self: Any, *a: Any, **k: Any) -> None:
                    if armed["on"] and not armed["fired"]:
                        if kind == 0:
                            # "exception after the event append": only a transaction that has appended a completion
                            # event is a completion transaction (a failure elsewhere sends CompleteStage down its
                            # own error path, which is not the regular completion step the property speaks of)
                            from stabilize.events.txn_scope import current_scope

                            scope = current_scope()
                            if scope is None or not any(getattr(getattr(ev, "event_type", None), "value", "") in COMPLETION_EVENTS for ev in scope.pending):
                                return orig_mark(self, *a, **k)
                        armed["fired"] = 1
                        ev_before = len(_event_rows(w))
                        armed["events_in_txn"] = ev_before
                        if kind == 0:
                            raise RuntimeError("injected failure after the event append")
                        raise ConcurrencyError("injected optimistic-lock conflict")
                    return orig_mark(self, *a, **k)

                txmod.AtomicTransaction.mark_message_processed = faulty  # type: ignore[method-assign]
                before_events = None
                while step < 300:
                    if not w.make_visible():
                        break
                    if not armed["fired"] and hx.decide_eq(step_sym, step):
                        armed["on"] = True
                        before_events = sum(1 for r in _event_rows(w) if r["event_type"] in COMPLETION_EVENTS)
                        bus_before = sum(1 for ev in w.bus_log if getattr(getattr(ev, "event_type", None), "value", "") in COMPLETION_EVENTS)
                    if fresh_thread and armed["on"] and not armed["fired"]:
                        w.step_fifo_fresh_thread()  # the step that meets the fault is handled by a thread new to the database
                    else:
                        w.step_fifo()
                    if armed["on"] and not armed["fired"]:
                        armed["on"] = False  # the handler of this step has no processed-mark inside its transaction: no fault here
                        armed["fired"] = 3
                    if armed["on"] and armed["fired"] == 1:
                        armed["on"] = False
                        armed["fired"] = 2
                        P.reached("fault@%d kind=%d" % (step, kind), {"workload": workload, "step": step, "kind": ["exception", "concurrency"][kind]})
                        if kind == 0:
                            # the failed delivery rolled back: nothing of it is durable, nobody was told
                            # (only the stage/task completion events are recorded inside the transaction;
                            #  started / skipped / canceled / workflow events are recorded outside by design)
                            now_events = sum(1 for r in _event_rows(w) if r["event_type"] in COMPLETION_EVENTS)
                            if now_events != before_events:
                                return P.fail("C13/events/event_of_rolled_back_transaction_is_durable", {"workload": workload, "step": step, "before": before_events, "after": now_events})
                            if sum(1 for ev in w.bus_log if getattr(getattr(ev, "event_type", None), "value", "") in COMPLETION_EVENTS) != bus_before:
                                return P.fail("C13/events/subscriber_notified_before_commit", {"workload": workload, "step": step})
                        bad = check_event_state_consistency(w, "after_fault")
                        if bad is not None:
                            return P.fail("C13/%s" % bad[0], {"workload": workload, "step": step, **bad[1]})
                    step += 1
                bad = check_event_state_consistency(w, "final")
                if bad is not None:
                    return P.fail("C13/%s" % bad[0], {"workload": workload, **bad[1]})
                # every completion event exactly once per completion
                rows = _event_rows(w)
                seen: Counter = Counter((r["entity_id"], r["event_type"]) for r in rows if r["event_type"] in COMPLETION_EVENTS)
                rearms = Counter(r["id"] for r in w.audit() if r["new"] == "NOT_STARTED")
                for (eid, et), n in seen.items():
                    if n > 1 + rearms.get(eid, 0):
                        return P.fail("C13/events/duplicate_completion_event", {"workload": workload, "entity": eid, "event": et, "count": n})
                return True
            finally:
                txmod.AtomicTransaction.mark_message_processed = orig_mark  # type: ignore[method-assign]
                w.close()


# ----------------------------------------------------------------------------------------------- pause / resume
def inject_pause(w: World) -> None:
    w.store.pause(w.workflow_id, "vf")


def inject_unpause(w: World) -> None:
    w.orchestrator.unpause(w.store.retrieve(w.workflow_id))


def post_cancel_second(w: World, snap: dict[str, Any], info: dict[str, Any]) -> tuple[str, Any] | None:
    """post_cancel for runs whose SECOND injection is the cancel (the first one is a pause)."""
    if not any(tag == 2 for tag, _ in injected_tags(info["injected"])):
        return None
    if snap["workflow"] == "PAUSED" and all(v["status"] in COMPLETE for v in snap["stages"].values()):
        # the pause hit when only completion messages were left: CompleteWorkflow cannot leave PAUSED for
        # SUCCEEDED whether or not a cancel follows (O10) - not attributed to the cancel
        live = [s_ for s_ in getattr(w, "cancel_seen", []) if s_ is not None and s_ not in COMPLETE]
        aud = w.audit()
        if live and not any(r["tbl"] == "cancel" and str(r["new"]) == "1" for r in aud):
            return ("cancel_handled_but_flag_not_durable/%s" % live[0], {"workflow_status_when_handled": live[0], "final": snap["workflow"]})
        return None
    return post_cancel(w, snap, info)


def make_inject_pause_and_signal(persistent: bool) -> Callable[[World], None]:
    sig = make_inject_signal(persistent)

    def inj(w: World) -> None:
        inject_pause(w)
        sig(w)

    return inj


def post_signal_after_unpause(w: World, snap: dict[str, Any], info: dict[str, Any]) -> tuple[str, Any] | None:
    """Pause + signal, later unpause: once the operator has resumed the workflow the signal has been delivered
    to exactly one execution of the suspending task and the stage has finished."""
    tags = [t for t, _ in injected_tags(info["injected"])]
    if 1 not in tags or 2 not in tags:
        return None
    runs = [e for e in w.ledger.entries if e["ref"] == "w"]
    seen = [e for e in runs if e.get("signal") == ["go", {"v": 7}]]
    wst = snap["stages"]["w"]["status"]
    detail = {"runs_of_suspending_task": len(runs), "runs_that_saw_the_signal": len(seen), "w": wst, "workflow": snap["workflow"]}
    if len(seen) > 1:
        return ("signal_delivered_twice", detail)
    if snap["workflow"] == "PAUSED":
        return None  # the pause caught nothing to park, Orchestrator.unpause had nothing to resume (O10): not about the signal
    if not seen:
        return ("signal_lost_across_pause/%s" % wst, detail)
    if wst != "SUCCEEDED":
        return ("signal_consumed_but_not_finished/%s" % wst, detail)
    return None


def inject_unpause_and_cancel(w: World) -> None:
    """The operator lifts the pause and cancels in one go (the cancel may be handled while the workflow is still PAUSED)."""
    wf = w.store.retrieve(w.workflow_id)
    w.orchestrator.unpause(wf)
    w.orchestrator.cancel(wf, "vf", "cancel requested by harness")


def inject_cancel_then_unpause(w: World) -> None:
    wf = w.store.retrieve(w.workflow_id)
    w.orchestrator.cancel(wf, "vf", "cancel requested by harness")
    w.orchestrator.unpause(wf)


# ----------------------------------------------------------------------------------------------- concurrent commit during a task body
def body_race_run(prop: str, workload: str, nth_sym: Any, action_sym: Any, monitors: tuple[str, ...] = ("C06",), choices: list[Any] | None = None,
                  compare: str = "none", post: Callable[[World, dict[str, Any], Any], tuple[str, Any] | None] | None = None,
                  signal_ref: str | None = None) -> bool:
    """While the n-th task execution of the run is inside Task.execute (n symbolic), another worker
    commits a complete handler: CancelStage of the executing stage, CancelWorkflow (+ its CancelStage
    fan-out), a persistent SignalStage for the stage, or a recovery sweep.  The RunTask handler holds
    no transaction while the task body runs, so this is a real interleaving of two workers."""
    from stabilize.queue.messages import CancelStage, CancelWorkflow, SignalStage

    with hx.Path("body_race:%s:%s" % (prop, workload)) as P:
        with hx.native():
            w = World()
            try:
                wf = WORKLOADS[workload]()
                spec = spec_of(wf)
                w.submit(wf)
                action = hx.pick(action_sym, 4)
                fired: list[Any] = []

                def on_task(entry: dict[str, Any]) -> None:
                    if fired:
                        return
                    if hx.decide_eq(nth_sym, entry["n"]):
                        fired.append((entry["ref"], entry["task"]))
                        sid = w.refs[entry["ref"]]
                        if action == 0:
                            w.run_now(CancelStage(execution_id=w.workflow_id, stage_id=sid))
                        elif action == 1:
                            w.run_now(CancelWorkflow(execution_id=w.workflow_id, user="vf", reason="race"))
                            saved = (HOOKS.ctx, HOOKS.handler_base, w._in_deliver)
                            try:
                                for r in [r for r in w.rows() if r["message_type"] == "CancelStage"]:
                                    w.deliver(r["id"])
                            finally:
                                HOOKS.ctx, HOOKS.handler_base, w._in_deliver = saved
                        elif action == 2:
                            tgt = w.refs[signal_ref] if signal_ref else sid
                            w.signal_seen.append(w.peek_stage_status(tgt))
                            w.run_now(SignalStage(execution_id=w.workflow_id, stage_id=tgt, signal_name="go", signal_data={"v": 7}, persistent=True))
                        else:
                            w.processor.run_recovery()

                w.on_task = on_task
                step = 0
                cp = 0
                while step < MAX_STEPS:
                    if not w.make_visible():
                        break
                    now = stubs.CLOCK.peek_ms()
                    vis = [r for r in w.rows() if r["attempts"] < w.queue_max_attempts and r["deliver_ms"] // 1000 <= now // 1000
                           and (r["lock_ms"] is None or r["lock_ms"] // 1000 < now // 1000)]
                    if not vis:
                        break
                    vis.sort(key=lambda r: (r["deliver_at"], r["id"]))
                    idx = 0
                    if choices and fired and cp < len(choices) and len(vis) > 1:
                        idx = hx.pick(choices[cp], min(len(vis), 3))
                        cp += 1
                    w.deliver(vis[idx]["id"])
                    step += 1
                w.on_task = None
                snap = w.snapshot()
                summ = summarize(snap)
                act = ["CancelStage", "CancelWorkflow", "persistent SignalStage", "recovery sweep"][action]
                if fired:
                    P.reached("%s during %s.%s" % (act, fired[0][0], fired[0][1]), {"workload": workload, "during": list(fired[0]), "other_worker": act, "final": summ["workflow"]})
                info = {"workload": workload, "during_task": list(fired[0]) if fired else None, "other_worker": act, "final": summ["stages"], "workflow": summ["workflow"], "errors": w.handler_errors[:3]}
                if step >= MAX_STEPS:
                    return P.fail("%s/body_race/%s/no_termination/%s" % (prop, workload, act.replace(" ", "_")), info)
                for m in monitors:
                    bad = MONITORS[m](w, spec)
                    if bad is not None:
                        return P.fail("%s/body_race/%s/%s/%s" % (prop, workload, act.replace(" ", "_"), bad[0]), {**info, "detail": bad[1]})
                if "C05" in monitors or prop == "C05":
                    q = quiescent_ok(snap)
                    if q is not None:
                        return P.fail("%s/body_race/%s/%s/not_quiescent/%s" % (prop, workload, act.replace(" ", "_"), state_sig(summ)), {**info, "why": q})
                if compare != "none" and fired:
                    ref = reference(workload)
                    rs = ref["summary"]
                    if summ["workflow"] != rs["workflow"] or summ["stages"] != rs["stages"]:
                        return P.fail("%s/body_race/%s/%s/outcome_differs/%s" % (prop, workload, act.replace(" ", "_"), state_sig(summ)), {**info, "expected": rs["stages"]})
                    a_, b_ = Counter((r, t) for r, t, _ in _ledger_view(w)), Counter((r, t) for r, t, _ in ref["ledger"])
                    if a_ != b_:
                        return P.fail("%s/body_race/%s/%s/executions_differ" % (prop, workload, act.replace(" ", "_")), {**info, "extra": sorted((a_ - b_).elements())[:4], "missing": sorted((b_ - a_).elements())[:4]})
                    q = quiescent_ok(snap)
                    if q is not None:
                        return P.fail("%s/body_race/%s/%s/not_quiescent/%s" % (prop, workload, act.replace(" ", "_"), state_sig(summ)), {**info, "why": q})
                if post is not None and fired:
                    badp = post(w, snap, {"injected": [1], "during": fired[0]})
                    if badp is not None:
                        return P.fail("%s/body_race/%s/%s/%s" % (prop, workload, act.replace(" ", "_"), badp[0]), {**info, "detail": badp[1]})
                if prop == "C17" and action == 1 and fired:
                    late = [e for e in w.ledger.entries if e["canceled"]]
                    if late:
                        return P.fail("C17/body_race/%s/task_started_after_cancel/%s.%s" % (workload, late[0]["ref"], late[0]["task"]), info)
                    if snap["workflow"] not in COMPLETE:
                        return P.fail("C17/body_race/%s/workflow_not_final/%s" % (workload, state_sig(summ)), info)
                return True
            finally:
                w.close()


# ----------------------------------------------------------------------------------------------- statement-level sweep race
def sweep_stmt_race_run(prop: str, workload: str, j_sym: Any, k_sym: Any, direction: int, monitors: tuple[str, ...] = ("C02",), max_k: int = 80) -> bool:
    """A recovery sweep and a handler of another worker interleaved at statement granularity on the
    real SQLite file.  direction 0: the whole sweep runs just before the k-th SQL statement of the
    handler processing the j-th message; direction 1: one whole message is processed by another
    worker just before the k-th SQL statement of a sweep started before the j-th message.  A
    position inside an open write transaction is not enabled (SQLite would make the other worker
    wait for the commit): the pre-emption slips to the next statement outside a transaction.
    Oracle: same outcome and the same executions as the undisturbed run (C10), C02 monitors."""
    with hx.Path("sweep_stmt_race:%s:%s:%d" % (prop, workload, direction)) as P:
        with hx.native():
            ref = reference(workload)
            w = World()
            try:
                wf = WORKLOADS[workload]()
                spec = spec_of(wf)
                w.submit(wf)
                state = {"n": 0, "armed": False, "done": False, "at": None, "sql": None}

                def nested() -> None:
                    saved = (HOOKS.ctx, HOOKS.handler_base, w._in_deliver, HOOKS.on_statement)
                    HOOKS.on_statement = None
                    try:
                        if direction == 0:
                            w.processor.run_recovery()
                        else:
                            w.step_fifo()
                    finally:
                        HOOKS.ctx, HOOKS.handler_base, w._in_deliver, HOOKS.on_statement = saved

                def hook(conn: Any, sql: str) -> None:
                    if state["done"]:
                        return
                    state["n"] += 1
                    if not state["armed"] and state["n"] <= max_k and hx.decide_eq(k_sym, state["n"]):
                        state["armed"] = True
                    if state["armed"] and not conn.in_transaction and sql not in ("COMMIT", "ROLLBACK"):
                        state["done"] = True
                        state["at"] = state["n"]
                        state["sql"] = " ".join(sql.split()[:4])
                        nested()

                step = 0
                raced_at = None
                while step < MAX_STEPS:
                    if raced_at is None and hx.decide_eq(j_sym, step):
                        raced_at = step
                        HOOKS.on_statement = hook
                        try:
                            if direction == 0:
                                more = w.step_fifo()
                            else:
                                w.processor.run_recovery()
                                more = True
                        finally:
                            HOOKS.on_statement = None
                        if not more:
                            break
                        step += 1
                        continue
                    if not w.step_fifo():
                        break
                    step += 1
                w.processor._check_dlq()
                snap = w.snapshot()
                summ = summarize(snap)
                what = "sweep_inside_handler" if direction == 0 else "handler_inside_sweep"
                if raced_at is None or state["at"] is None:
                    return True  # j beyond the run or k beyond the statements: nothing raced (not counted as reached)
                handled = w.handled[-1][0] if w.handled else None
                P.reached("%s step %d stmt %d" % (what, raced_at, state["at"]), {"workload": workload, "step": raced_at, "statement": state["at"], "sql": state["sql"]})
                info = {"workload": workload, "race": what, "at_step": raced_at, "before_statement": state["at"], "sql": state["sql"], "final": summ["stages"], "workflow": summ["workflow"], "errors": w.handler_errors[:3], "last_handled": handled}
                if step >= MAX_STEPS:
                    return P.fail("%s/stmt_race/%s/%s/no_termination" % (prop, workload, what), info)
                for m in monitors:
                    bad = MONITORS[m](w, spec)
                    if bad is not None:
                        return P.fail("%s/stmt_race/%s/%s/%s" % (prop, workload, what, bad[0]), {**info, "detail": bad[1]})
                rs = ref["summary"]
                if summ["workflow"] != rs["workflow"] or summ["stages"] != rs["stages"]:
                    return P.fail("%s/stmt_race/%s/%s/outcome_differs/%s" % (prop, workload, what, state_sig(summ)), {**info, "expected": rs["stages"]})
                a_, b_ = Counter((r, t) for r, t, _ in _ledger_view(w)), Counter((r, t) for r, t, _ in ref["ledger"])
                if a_ != b_:
                    return P.fail("%s/stmt_race/%s/%s/executions_differ" % (prop, workload, what), {**info, "extra": sorted((a_ - b_).elements())[:4], "missing": sorted((b_ - a_).elements())[:4]})
                q = quiescent_ok(snap)
                if q is not None:
                    return P.fail("%s/stmt_race/%s/%s/not_quiescent/%s" % (prop, workload, what, state_sig(summ)), {**info, "why": q})
                return True
            finally:
                HOOKS.on_statement = None
                w.close()


def play_reorder_after_restart(choices: list[Any], fanout: int = 3) -> Callable[[World, dict[str, Any]], None]:
    """A ``play`` for crash_run: FIFO until the crash; after every restart the first len(choices)
    choice points are scheduled by symbolic picks (the redelivered un-acked message need not be the
    first thing the restarted worker handles)."""

    def play(w: World, state: dict[str, Any]) -> None:
        state["calls"] = state.get("calls", 0) + 1
        if state["calls"] == 1:
            w.drain()
            return
        cp = 0
        step = 0
        while step < MAX_STEPS:
            if not w.make_visible():
                break
            now = stubs.CLOCK.peek_ms()
            vis = [r for r in w.rows() if r["attempts"] < w.queue_max_attempts and r["deliver_ms"] // 1000 <= now // 1000
                   and (r["lock_ms"] is None or r["lock_ms"] // 1000 < now // 1000)]
            if not vis:
                break
            vis.sort(key=lambda r: (r["deliver_at"], r["id"]))
            idx = 0
            if cp < len(choices) and len(vis) > 1:
                idx = hx.pick(choices[cp], min(len(vis), fanout))
                cp += 1
            w.deliver(vis[idx]["id"])
            step += 1
        w.processor._check_dlq()

    return play


def cancel_crash_run(workload: str, j_sym: Any, k_sym: Any, max_k: int = 14) -> bool:
    """C17 under a crash: the cancel request is accepted before step j; the worker is killed at its
    k-th durable commit after that (the CancelWorkflow handler's flag commit, its fan-out commit,
    the CancelStage handlers, ...), restarted with a recovery sweep, and drained.  Oracle: post_cancel."""
    with hx.Path("cancel_crash:" + workload) as P:
        with hx.native():
            w = World()
            try:
                w.submit(WORKLOADS[workload]())
                steps = 0
                while steps < 80 and not hx.decide_eq(j_sym, steps):
                    if not w.step_fifo():
                        break
                    steps += 1
                inject_cancel(w)
                base = HOOKS.commits
                crashed: list[Any] = []

                def hook(conn: Any) -> None:
                    n = HOOKS.commits - base
                    if n <= max_k and hx.decide_eq(k_sym, n):
                        crashed.append((n, commit_site()))
                        HOOKS.dead = True
                        raise Crash()

                HOOKS.on_commit = hook
                try:
                    w.drain()
                except Crash:
                    pass
                HOOKS.on_commit = None
                if crashed:
                    w.restart()
                    w.processor.run_recovery()
                    w.drain()
                snap = w.snapshot()
                if not crashed:
                    return True
                P.reached("%s step %d commit %d" % (workload, steps, crashed[0][0]), {"workload": workload, "cancel_before_step": steps, "crash_commit_after_cancel": crashed[0][0], "site": crashed[0][1]})
                bad = post_cancel(w, snap, {"injected": [1]})
                if bad is not None:
                    return P.fail("C17/cancel_crash/%s/%s@%s" % (workload, bad[0], crashed[0][1]), {"workload": workload, "cancel_before_step": steps, "crash_commit_after_cancel": crashed[0][0], "site": crashed[0][1], "detail": bad[1]})
                return True
            finally:
                HOOKS.on_commit = None
                w.close()


def restart_crash_run(workload: str, j_sym: Any, i_sym: Any, k_sym: Any, expire_sym: Any = True, max_k: int = 10, max_j: int = 60) -> bool:
    """An operator restart of stage i (i symbolic) is requested before step j (also after the workflow
    has finished); the worker is killed at its k-th durable commit after that, restarted with a
    recovery sweep (the dead worker's lock lapsed, or still held: symbolic) and the queue is drained.  One request re-arms the stage exactly
    once (the redelivered RestartStage is recognised as handled), the re-run happens at most once
    more than crashes allow, and the run ends quiescent."""
    with hx.Path("restart_crash:" + workload) as P:
        with hx.native():
            w = World()
            try:
                w.submit(WORKLOADS[workload]())
                steps = 0
                while steps < max_j and not hx.decide_eq(j_sym, steps):
                    if not w.step_fifo():
                        break
                    steps += 1
                refs = sorted(r for r in w.refs if not r.startswith("syn:"))
                ref = refs[hx.pick(i_sym, len(refs))]
                before = w.store.retrieve_stage(w.refs[ref]).status.name
                make_inject_restart_stage(refs.index(ref))(w)
                base = HOOKS.commits
                crashed: list[Any] = []

                def hook(conn: Any) -> None:
                    n = HOOKS.commits - base
                    if n <= max_k and hx.decide_eq(k_sym, n):
                        crashed.append((n, commit_site()))
                        HOOKS.dead = True
                        raise Crash()

                HOOKS.on_commit = hook
                try:
                    w.drain()
                except Crash:
                    pass
                HOOKS.on_commit = None
                if not crashed:
                    return True
                # the dead worker's queue lock has lapsed when the new worker starts - or it still holds and the
                # un-acked message comes back only after everything else has been handled
                expire = hx.decide(expire_sym)
                w.restart(expire_locks=expire)
                w.processor.run_recovery()
                w.drain()
                snap = w.snapshot()
                info = {"workload": workload, "restart_of": ref, "locks_lapsed_at_restart": expire, "stage_status_at_request": before, "before_step": steps, "crash_commit_after_request": crashed[0][0], "site": crashed[0][1]}
                P.reached("%s %s step %d commit %d" % (workload, ref, steps, crashed[0][0]), info)
                rearms = [r for r in w.audit() if r["tbl"] == "stage" and r["id"] == w.refs[ref] and r["new"] == "NOT_STARTED" and (r["ctx"] or "") == "RestartStage"]
                if len(rearms) > 1:
                    return P.fail("C09/restart_crash/%s/one_request_re_armed_the_stage_%d_times@%s" % (workload, len(rearms), crashed[0][1]), {**info, "re_arms": len(rearms)})
                q = quiescent_ok(snap)
                if q is not None:
                    return P.fail("C09/restart_crash/%s/not_quiescent/%s@%s" % (workload, state_sig(summarize(snap)), crashed[0][1]), {**info, "why": q})
                return True
            finally:
                HOOKS.on_commit = None
                w.close()


# ----------------------------------------------------------------------------------------------- statement-level handler race
def handler_stmt_race_run(prop: str, workload: str, j_sym: Any, k_sym: Any, pick_sym: Any, monitors: tuple[str, ...] = ("C02", "C06"),
                          compare: str = "reference", max_k: int = 90, a_pick_sym: Any = 0,
                          inject: Callable[[World], None] | None = None, post: Callable[[World, dict[str, Any], Any], tuple[str, Any] | None] | None = None,
                          k2_sym: Any = None, pick2_sym: Any = 0, wide: bool = False, delayed: bool = False,
                          pre_choices: list[Any] | None = None, hold_sym: Any = None, hold_n_sym: Any = 0, quiescent: bool = True) -> bool:
    """Two workers, one pre-emption, every pair of handlers the run offers: the handler of the j-th
    delivered message (worker A) is stopped just before its k-th SQL statement and another
    deliverable message (the pick-th of those visible at that instant) is handled completely by
    worker B; then A continues with whatever it had read before.  A itself is any of the (<= 3)
    oldest deliverable messages at step j.  With ``inject`` a client request (signal, cancel) is
    accepted right before step j, so its handler is one of the two that race.  With ``k2_sym`` a
    third worker C handles yet another message completely just before B's k2-th statement (three
    workers, two nested pre-emptions).  ``wide``: A and B range over up to 6 deliverable messages
    instead of the two oldest and the newest.  ``delayed``: the other worker may also take a
    message whose delay (<= 30 s, i.e. shorter than the queue lock of the pre-empted handler's own
    message) has not elapsed yet: the pre-emption lasts as long as the backoff, the clock is advanced.  Real SQLite file; a position
    inside A's open write transaction is not enabled (B would wait for the commit) and slips to the
    next statement outside one.  j, k and the pick are symbolic."""
    with hx.Path("handler_stmt_race:%s:%s" % (prop, workload)) as P:
        with hx.native():
            w = World()
            try:
                wf = WORKLOADS[workload]()
                spec = spec_of(wf)
                w.submit(wf)
                state: dict[str, Any] = {"n": 0, "armed": False, "done": False, "at": None, "sql": None, "b": None, "a": None, "cp": 0}

                def visible(nested: bool = False) -> list[dict[str, Any]]:
                    now = stubs.CLOCK.peek_ms()
                    vis = [r for r in w.rows() if r["attempts"] < w.queue_max_attempts and (r["deliver_ms"] // 1000 <= now // 1000 or (nested and delayed and r["deliver_ms"] <= now + 30_000))
                           and (r["lock_ms"] is None or r["lock_ms"] // 1000 < now // 1000)]
                    vis.sort(key=lambda r: (r["deliver_at"], r["id"]))
                    return vis

                HOLD_TYPES = ["CompleteStage", "CompleteTask", "StartStage", "StartTask", "RunTask", "JumpToStage"]
                hold_type = HOLD_TYPES[hx.pick(hold_sym, len(HOLD_TYPES))] if hold_sym is not None else None
                hold_n = 1 + hx.pick(hold_n_sym, 3) if hold_sym is not None else 0

                def held_row_id() -> Any:
                    if hold_type is None:
                        return None
                    ins = [r_["id"] for r_ in w.qlog() if r_["op"] == "ins" and r_["q"] == "q" and r_["mtype"] == hold_type]
                    return ins[hold_n - 1] if len(ins) >= hold_n else None

                st2: dict[str, Any] = {"n": 0, "armed": False, "done": False, "at": None, "c": None}

                def hook2(conn: Any, sql: str) -> None:
                    # worker B's handler, pre-empted once by a third worker C
                    if st2["done"] or not w._in_deliver:
                        return
                    st2["n"] += 1
                    if not st2["armed"] and st2["n"] <= max_k and hx.decide_eq(k2_sym, st2["n"]):
                        st2["armed"] = True
                    if st2["armed"] and not conn.in_transaction and sql not in ("COMMIT", "ROLLBACK"):
                        vis2 = visible(True)
                        if not vis2:
                            return
                        st2["done"] = True
                        st2["at"] = st2["n"]
                        cand2 = vis2[:2] + ([vis2[-1]] if len(vis2) > 2 else [])
                        row2 = cand2[hx.pick(pick2_sym, len(cand2))]
                        st2["c"] = row2["message_type"]
                        saved2 = (HOOKS.ctx, HOOKS.handler_base, w._in_deliver, HOOKS.on_statement)
                        HOOKS.on_statement = None
                        try:
                            w.deliver(row2["id"])
                        finally:
                            HOOKS.ctx, HOOKS.handler_base, w._in_deliver, HOOKS.on_statement = saved2

                def hook(conn: Any, sql: str) -> None:
                    if state["done"] or not w._in_deliver:
                        return  # only the handler proper is pre-empted (poll_one / ack races are C08's)
                    state["n"] += 1
                    if not state["armed"] and state["n"] <= max_k and hx.decide_eq(k_sym, state["n"]):
                        state["armed"] = True
                    if state["armed"] and not conn.in_transaction and sql not in ("COMMIT", "ROLLBACK"):
                        vis = visible(True)
                        if not vis:
                            return  # nothing another worker could take right now: try the next position
                        state["done"] = True
                        state["at"] = state["n"]
                        state["sql"] = " ".join(sql.split()[:4])
                        cand = vis[:6] if wide else vis[:2] + ([vis[-1]] if len(vis) > 2 else [])  # the two oldest and the newest (an injected request is the newest); wide: up to 6
                        hid = held_row_id()
                        if hid is not None and any(r_["id"] == hid for r_ in vis) and all(r_["id"] != hid for r_ in cand):
                            cand = [r_ for r_ in vis if r_["id"] == hid] + cand
                        row = cand[hx.pick(pick_sym, len(cand))]
                        state["b"] = row["message_type"]
                        saved = (HOOKS.ctx, HOOKS.handler_base, w._in_deliver, HOOKS.on_statement)
                        HOOKS.on_statement = hook2 if k2_sym is not None else None
                        try:
                            w.deliver(row["id"])
                        finally:
                            HOOKS.ctx, HOOKS.handler_base, w._in_deliver, HOOKS.on_statement = saved
                        if state["a"] == "SignalStage" and "w" in w.refs:
                            w.signal_seen.append(w.peek_stage_status(w.refs["w"]))  # what A may read after the pre-emption

                step = 0
                raced_at = None
                while step < MAX_STEPS:
                    if not w.make_visible():
                        break
                    vis = visible()
                    if not vis:
                        break
                    if raced_at is None and hold_type is not None:
                        hid0 = held_row_id()
                        rest = [r_ for r_ in vis if r_["id"] != hid0]
                        if rest:
                            vis = rest  # the held message is not delivered before the race (unless nothing else can be)
                    if raced_at is None and hx.decide_eq(j_sym, step):
                        raced_at = step
                        if inject is not None:
                            inject(w)
                            vis = visible()
                            if hold_type is not None:
                                vis = [r_ for r_ in vis if r_["id"] != held_row_id()] or vis
                        acand = vis[:6] if wide else vis[:2] + ([vis[-1]] if len(vis) > 2 else [])
                        arow = acand[hx.pick(a_pick_sym, len(acand))] if len(vis) > 1 else vis[0]  # A need not take the oldest message
                        state["a"] = arow["message_type"]
                        n_before = w.ledger.seq
                        HOOKS.on_statement = hook
                        try:
                            w.deliver(arow["id"])
                        finally:
                            HOOKS.on_statement = None
                        state["in_flight"] = list(range(n_before + 1, w.ledger.seq + 1))
                    else:
                        idx = 0
                        if pre_choices and raced_at is None and state["cp"] < len(pre_choices) and len(vis) > 1:
                            idx = hx.pick(pre_choices[state["cp"]], min(len(vis), 3))
                            state["cp"] += 1
                        w.deliver(vis[idx]["id"])
                    step += 1
                w.processor._check_dlq()
                snap = w.snapshot()
                summ = summarize(snap)
                if raced_at is None or state["at"] is None:
                    return True
                if k2_sym is not None and st2["at"] is None:
                    return True  # the third worker never got in: covered by the two-worker obligations
                what = "%s_inside_%s" % (state["b"], state["a"]) if k2_sym is None else "%s_inside_%s_inside_%s" % (st2["c"], state["b"], state["a"])
                P.reached("%s step %d stmt %d/%s" % (what, raced_at, state["at"], st2["at"]), {"workload": workload, "A": state["a"], "B": state["b"], "C": st2["c"], "step": raced_at, "statement": state["at"], "statement_in_B": st2["at"], "sql": state["sql"]})
                info = {"workload": workload, "worker_A_handles": state["a"], "worker_B_handles": state["b"], "worker_C_handles": st2["c"], "C_before_statement_of_B": st2["at"],
                        "at_step": raced_at, "before_statement": state["at"], "sql": state["sql"],
                        "final": summ["stages"], "workflow": summ["workflow"], "errors": w.handler_errors[:3]}
                if step >= MAX_STEPS:
                    return P.fail("%s/handler_race/%s/%s/no_termination" % (prop, workload, what), info)
                for m in monitors:
                    bad = MONITORS[m](w, spec)
                    if bad is not None:
                        return P.fail("%s/handler_race/%s/%s/%s" % (prop, workload, what, bad[0]), {**info, "detail": bad[1]})
                q = quiescent_ok(snap) if quiescent else None
                if q is not None:
                    return P.fail("%s/handler_race/%s/%s/not_quiescent/%s" % (prop, workload, what, state_sig(summ)), {**info, "why": q})
                if post is not None:
                    badp = post(w, snap, {"injected": [1] if inject is not None else [], "in_flight_entries": state.get("in_flight") or []})
                    if badp is not None:
                        return P.fail("%s/handler_race/%s/%s/%s" % (prop, workload, what, badp[0]), {**info, "detail": badp[1]})
                if compare != "none":
                    ref = reference(workload)
                    rs = ref["summary"]
                    if summ["workflow"] != rs["workflow"] or (compare in ("reference", "counts", "stages") and summ["stages"] != rs["stages"]):
                        return P.fail("%s/handler_race/%s/%s/outcome_differs/%s" % (prop, workload, what, state_sig(summ)), {**info, "expected": rs["stages"]})
                    if compare in ("reference", "counts"):
                        a_, b_ = Counter((r, t) for r, t, _ in _ledger_view(w)), Counter((r, t) for r, t, _ in ref["ledger"])
                        if a_ != b_:
                            return P.fail("%s/handler_race/%s/%s/executions_differ" % (prop, workload, what), {**info, "extra": sorted((a_ - b_).elements())[:4], "missing": sorted((b_ - a_).elements())[:4]})
                return True
            finally:
                HOOKS.on_statement = None
                w.close()


def transient_pair_run(n1_sym: Any, n2_sym: Any, with_ctx: Any = True, max_n: int = 9) -> bool:
    """Two tasks of one stage, each failing transiently n1 / n2 times (both below the limit) before
    succeeding: every task has its own budget - both must succeed after exactly n+1 executions and
    see their own progress."""
    from vf.native import workflow, stage

    with hx.Path("transient_pair") as P:
        with hx.native():
            n1 = hx.pick(n1_sym, max_n + 1)
            n2 = hx.pick(n2_sym, max_n + 1)
            w = World()
            try:
                tasks = {"t1": {"kind": "transient", "n": n1, "ctx": with_ctx}, "t2": {"kind": "transient", "n": n2, "ctx": with_ctx}}
                w.submit(workflow([stage("a", tasks=tasks), stage("b", ["a"])]))
                w.drain(max_steps=500)
                snap = w.snapshot()
                P.reached((n1, n2), {"n1": n1, "n2": n2, "workflow": snap["workflow"]})
                for tname, n in (("t1", n1), ("t2", n2)):
                    execs = [e for e in w.ledger.entries if e["ref"] == "a" and e["task"] == tname]
                    info = {"failures": {"t1": n1, "t2": n2}, "task": tname, "executions": len(execs), "expected": n + 1, "workflow": snap["workflow"], "tasks": snap["stages"]["a"]["tasks"]}
                    if len(execs) != n + 1:
                        return P.fail("C14/transient_pair/%s" % ("gave_up_before_its_own_limit" if len(execs) < n + 1 else "too_many_executions"), info)
                    if with_ctx:
                        seen = [e.get("progress_seen") for e in execs]
                        if seen != list(range(len(execs))):
                            return P.fail("C14/transient_pair/progress_lost", {**info, "progress_seen": seen})
                if snap["workflow"] != "SUCCEEDED":
                    return P.fail("C14/transient_pair/not_succeeded_after_recovering", {"failures": {"t1": n1, "t2": n2}, "workflow": snap["workflow"], "tasks": snap["stages"]["a"]["tasks"]})
                return True
            finally:
                w.close()



def post_retry_bound(w: World, snap: dict[str, Any], info: dict[str, Any]) -> tuple[str, Any] | None:
    """C14 under a race: a task that always fails transiently runs at most the documented number of
    times and ends TERMINAL."""
    execs = [e for e in w.ledger.entries if e["ref"] == "a" and e["task"] == "t1"]
    if len(execs) > DOCUMENTED_ATTEMPT_LIMIT:
        return ("retried_beyond_limit", {"executions": len(execs), "limit": DOCUMENTED_ATTEMPT_LIMIT})
    if snap["workflow"] != "TERMINAL":
        return ("not_terminal_at_limit/%s" % snap["workflow"], {"executions": len(execs), "workflow": snap["workflow"]})
    return None


# ----------------------------------------------------------------------------------------------- transient commit fault (no process death)
def commit_fault_run(prop: str, workload: str, k_sym: Any, monitors: tuple[str, ...] = (), compare: str = "reference", events: bool = False) -> bool:
    """The k-th commit made inside a handler fails with sqlite3.OperationalError('database is
    locked') (k symbolic: every handler commit of the run); the process survives, the failed transaction is rolled
    back by the code's own error handling, the processor reschedules the message and it is handled
    again later.  Oracle: quiescence and the outcome of the undisturbed run (one extra execution of
    a task body allowed, as after a crash)."""
    import sqlite3 as _sq

    with hx.Path("commit_fault:" + workload) as P:
        with hx.native():
            ref = reference(workload, events)
            w = World(events=events)
            try:
                wf = WORKLOADS[workload]()
                spec = spec_of(wf)
                w.submit(wf)
                base = HOOKS.commits
                fired: list[Any] = []

                def hook(conn: Any) -> None:
                    if not HOOKS.ctx:
                        return  # only commits made while a handler runs (the queue's own poll / ack commits are C08's subject)
                    state["n"] += 1
                    if not fired and hx.decide_eq(k_sym, state["n"]):
                        fired.append((state["n"], commit_site()))
                        HOOKS.commits -= 1  # this commit does not happen
                        raise _sq.OperationalError("database is locked")

                state = {"n": 0}
                HOOKS.on_commit = hook
                try:
                    w.drain()
                finally:
                    HOOKS.on_commit = None
                w.drain()
                snap = w.snapshot()
                summ = summarize(snap)
                if not fired:
                    return True
                site = fired[0][1]
                P.reached("%s@%d" % (workload, fired[0][0]), {"workload": workload, "failed_commit": fired[0][0], "site": site, "final": summ["workflow"]})
                info = {"workload": workload, "failed_commit": fired[0][0], "site": site, "final": summ["stages"], "workflow": summ["workflow"], "errors": w.handler_errors[:3]}
                for m in monitors:
                    bad = MONITORS[m](w, spec)
                    if bad is not None:
                        return P.fail("%s/commit_fault/%s/%s@%s" % (prop, workload, bad[0], site), {**info, "detail": bad[1]})
                q = quiescent_ok(snap)
                if q is not None:
                    return P.fail("%s/commit_fault/%s/not_quiescent/%s@%s" % (prop, workload, state_sig(summ), site), {**info, "why": q})
                if compare != "none":
                    rs = ref["summary"]
                    if summ["workflow"] != rs["workflow"] or (compare != "workflow" and summ["stages"] != rs["stages"]):
                        return P.fail("%s/commit_fault/%s/outcome_differs/%s@%s" % (prop, workload, state_sig(summ), site), {**info, "expected": rs["stages"]})
                    if compare in ("reference", "counts"):
                        a_, b_ = Counter((r, t) for r, t, _ in _ledger_view(w)), Counter((r, t) for r, t, _ in ref["ledger"])
                        if (b_ - a_) or sum((a_ - b_).values()) > 1:
                            return P.fail("%s/commit_fault/%s/executions_differ@%s" % (prop, workload, site), {**info, "extra": sorted((a_ - b_).elements())[:4], "missing": sorted((b_ - a_).elements())[:4]})
                return True
            finally:
                HOOKS.on_commit = None
                w.close()


def inject_cancel_running_stage(w: World) -> None:
    """A CancelStage for a currently RUNNING top-level stage is queued (what CancelWorkflow's fan-out,
    CancelRegion or a failing sibling's CompleteWorkflow do) - the oldest RUNNING stage."""
    from stabilize.queue.messages import CancelStage

    rows = w.q("SELECT id FROM stage_executions WHERE execution_id=? AND status='RUNNING' AND parent_stage_id IS NULL ORDER BY id", w.workflow_id)
    if rows:
        w.queue.push(CancelStage(execution_id=w.workflow_id, stage_id=rows[0]["id"]))


def choice_restart_run(choices: list[Any], sweep: Any, which: Any) -> bool:
    """C11 after the fact: the deferred-choice workload runs to completion (symbolic schedule), the
    claims retention sweep runs (or not), then an operator restarts the loser, the winner, or both (in
    either order; symbolic).  Still exactly one member of the group ever runs a task: a
    restarted loser ends CANCELED again."""
    with hx.Path("choice_restart") as P:
        with hx.native():
            w = World()
            try:
                wf = WORKLOADS["choice"]()
                w.submit(wf)
                cp = 0
                step = 0
                while step < MAX_STEPS:
                    if not w.make_visible():
                        break
                    now = stubs.CLOCK.peek_ms()
                    vis = [r for r in w.rows() if r["attempts"] < w.queue_max_attempts and r["deliver_ms"] // 1000 <= now // 1000
                           and (r["lock_ms"] is None or r["lock_ms"] // 1000 < now // 1000)]
                    if not vis:
                        break
                    vis.sort(key=lambda r: (r["deliver_at"], r["id"]))
                    idx = 0
                    if cp < len(choices) and len(vis) > 1:
                        idx = hx.pick(choices[cp], min(len(vis), 3))
                        cp += 1
                    w.deliver(vis[idx]["id"])
                    step += 1
                snap0 = w.snapshot()
                ran0 = sorted({e["ref"] for e in w.ledger.entries if e["ref"] in ("c1", "c2")})
                if len(ran0) != 1:
                    return True  # covered by the group_* obligations
                winner = ran0[0]
                loser = "c2" if winner == "c1" else "c1"
                wh = hx.pick(which, 4)  # 0: the loser, 1: the winner, 2: both (winner's request first), 3: both (loser's request first)
                # once the retention sweep has deleted the claim of a finished execution and BOTH members are re-armed, nothing
                # records the decision any more (O11): the sweep is combined with the restart of one member only
                swept = hx.decide(sweep) if wh < 2 else False
                if swept:
                    w.store.cleanup_completed_stage_claims()
                target = loser if wh in (0, 3) else winner
                w.orchestrator.restart(w.store.retrieve(w.workflow_id), w.refs[target])
                if wh >= 2:
                    other = winner if target == loser else loser
                    w.orchestrator.restart(w.store.retrieve(w.workflow_id), w.refs[other])
                w.drain()
                snap = w.snapshot()
                ran = sorted({e["ref"] for e in w.ledger.entries if e["ref"] in ("c1", "c2")})
                P.reached((winner, swept, wh), {"winner": winner, "swept": swept, "restarted": ["loser", "winner", "both, winner first", "both, loser first"][wh]})
                info = {"winner": winner, "claims_swept_before_restart": swept, "restarted": ["loser", "winner", "both, winner first", "both, loser first"][wh], "members_that_ran_a_task": ran,
                        "final": {m: snap["stages"][m]["status"] for m in ("c1", "c2")}, "before_restart": {m: snap0["stages"][m]["status"] for m in ("c1", "c2")}}
                if ran != [winner]:
                    return P.fail("C11/choice_restart/second_member_of_the_group_ran/%s" % ("after_sweep" if swept else "no_sweep"), info)
                if wh == 0 and snap["stages"][loser]["status"] not in ("CANCELED", "NOT_STARTED", "SKIPPED"):
                    return P.fail("C11/choice_restart/restarted_loser_not_canceled/%s" % snap["stages"][loser]["status"], info)
                return True
            finally:
                w.close()


# ----------------------------------------------------------------------------------------------- two real worker threads (A-B-A-B)
def two_thread_race_run(prop: str, workload: str, j_sym: Any, k1_sym: Any, k2_sym: Any, a_pick_sym: Any = 0, b_pick_sym: Any = 0,
                        monitors: tuple[str, ...] = ("C04", "C02", "C02x", "C06"), compare: str = "reference", hold_sym: Any = None, hold_n_sym: Any = 0, max_k: int = 40, max_k2: int | None = None) -> bool:
    """Two worker threads with their own SQLite connections handle two different messages of the
    step-j state concurrently under a deterministic scheduler with TWO switches: A runs until just
    before its k1-th SQL statement (outside an open write transaction), then B runs until just
    before its k2-th, then A runs to the end of its handler, then B does.  This is the A-B-A-B
    shape that nesting a whole handler inside another cannot express.  j, k1, k2 and the picks of
    the two messages are symbolic (decided in the main thread before the workers start)."""
    import threading

    with hx.Path("two_thread_race:%s:%s" % (prop, workload)) as P:
        with hx.native():
            w = World()
            try:
                wf = WORKLOADS[workload]()
                spec = spec_of(wf)
                w.submit(wf)
                HOLD_TYPES = ["CompleteStage", "CompleteTask", "StartStage", "StartTask", "RunTask", "JumpToStage"]
                hold_type = HOLD_TYPES[hx.pick(hold_sym, len(HOLD_TYPES))] if hold_sym is not None else None
                hold_n = 1 + hx.pick(hold_n_sym, 3) if hold_sym is not None else 0

                def held_row_id() -> Any:
                    if hold_type is None:
                        return None
                    ins = [r_["id"] for r_ in w.qlog() if r_["op"] == "ins" and r_["q"] == "q" and r_["mtype"] == hold_type]
                    return ins[hold_n - 1] if len(ins) >= hold_n else None

                def visible() -> list[dict[str, Any]]:
                    now = stubs.CLOCK.peek_ms()
                    vis = [r for r in w.rows() if r["attempts"] < w.queue_max_attempts and r["deliver_ms"] // 1000 <= now // 1000
                           and (r["lock_ms"] is None or r["lock_ms"] // 1000 < now // 1000)]
                    vis.sort(key=lambda r: (r["deliver_at"], r["id"]))
                    return vis

                step = 0
                raced = None
                while step < MAX_STEPS:
                    if not w.make_visible():
                        break
                    vis = visible()
                    if not vis:
                        break
                    hid = held_row_id()
                    rest = [r_ for r_ in vis if r_["id"] != hid]
                    if raced is None and len(vis) >= 2 and hx.decide_eq(j_sym, step):
                        cand = (rest[:3] if rest else vis[:3])
                        arow = cand[hx.pick(a_pick_sym, len(cand))]
                        others = [r_ for r_ in vis if r_["id"] != arow["id"]]
                        bc = ([r_ for r_ in others if r_["id"] == hid] + [r_ for r_ in others if r_["id"] != hid])[:3]
                        brow = bc[hx.pick(b_pick_sym, len(bc))]
                        k1 = 1 + hx.pick(k1_sym, max_k)
                        k2 = 1 + hx.pick(k2_sym, max_k2 or max_k)
                        raced = _run_two_threads(w, arow, brow, k1, k2)
                        step += 2
                        continue
                    if raced is None and rest:
                        vis = rest
                    w.deliver(vis[0]["id"])
                    step += 1
                w.processor._check_dlq()
                snap = w.snapshot()
                summ = summarize(snap)
                if raced is None or not raced["switched"]:
                    return True
                what = "%s||%s" % (raced["a"], raced["b"])
                P.reached("%s step %s k1=%s k2=%s" % (what, raced.get("step"), raced["at1"], raced["at2"]), {"workload": workload, "A": raced["a"], "B": raced["b"], "A_paused_before_statement": raced["at1"], "B_paused_before_statement": raced["at2"]})
                info = {"workload": workload, "worker_A_handles": raced["a"], "worker_B_handles": raced["b"], "A_paused_before_its_statement": raced["at1"], "B_paused_before_its_statement": raced["at2"],
                        "final": summ["stages"], "workflow": summ["workflow"], "errors": (w.handler_errors + raced["errors"])[:3]}
                if raced["errors"] and any("scheduler" in e or "deadlock" in e for e in raced["errors"]):
                    raise hx.HarnessError("two-thread scheduler: %s" % raced["errors"][:2])
                if step >= MAX_STEPS:
                    return P.fail("%s/two_threads/%s/%s/no_termination" % (prop, workload, what), info)
                for m in monitors:
                    bad = MONITORS[m](w, spec)
                    if bad is not None:
                        return P.fail("%s/two_threads/%s/%s/%s" % (prop, workload, what, bad[0]), {**info, "detail": bad[1]})
                q = quiescent_ok(snap)
                if q is not None:
                    return P.fail("%s/two_threads/%s/%s/not_quiescent/%s" % (prop, workload, what, state_sig(summ)), {**info, "why": q})
                if compare != "none":
                    ref = reference(workload)
                    rs = ref["summary"]
                    if summ["workflow"] != rs["workflow"] or (compare in ("reference", "counts", "stages") and summ["stages"] != rs["stages"]):
                        return P.fail("%s/two_threads/%s/%s/outcome_differs/%s" % (prop, workload, what, state_sig(summ)), {**info, "expected": rs["stages"]})
                    if compare in ("reference", "counts"):
                        a_, b_ = Counter((r, t) for r, t, _ in _ledger_view(w)), Counter((r, t) for r, t, _ in ref["ledger"])
                        if a_ != b_:
                            return P.fail("%s/two_threads/%s/%s/executions_differ" % (prop, workload, what), {**info, "extra": sorted((a_ - b_).elements())[:4], "missing": sorted((b_ - a_).elements())[:4]})
                return True
            finally:
                HOOKS.on_statement = None
                w.close()


def _run_two_threads(w: World, arow: dict[str, Any], brow: dict[str, Any], k1: int, k2: int) -> dict[str, Any]:
    """Deterministic two-thread schedule A..|B..|A(rest)|B(rest); a switch point inside an open
    write transaction slips to the next statement outside one."""
    import threading

    cv = threading.Condition()
    st: dict[str, Any] = {"turn": "A", "phase": 0, "n": {"A": 0, "B": 0}, "armed": {"A": False, "B": False}, "done": {"A": False, "B": False},
                          "at1": None, "at2": None, "errors": [], "a": arow["message_type"], "b": brow["message_type"], "switched": False}
    tl = threading.local()

    def wait_turn(me: str) -> None:
        with cv:
            ok = cv.wait_for(lambda: st["turn"] == me, timeout=60)
            if not ok:
                st["errors"].append("scheduler: %s waited 60 s for its turn (deadlock)" % me)
                st["turn"] = me

    def give(to: str) -> None:
        with cv:
            st["turn"] = to
            cv.notify_all()

    def hook(conn: Any, sql: str) -> None:
        me = getattr(tl, "me", None)
        if me is None or not getattr(tl, "in_handler", False):
            return
        st["n"][me] += 1
        other = "B" if me == "A" else "A"
        kk = k1 if me == "A" else k2
        want_phase = 0 if me == "A" else 1
        if st["phase"] == want_phase and not st["armed"][me] and st["n"][me] >= kk:
            st["armed"][me] = True
        if st["phase"] == want_phase and st["armed"][me] and not conn.in_transaction and sql not in ("COMMIT", "ROLLBACK") and not st["done"][other]:
            st["phase"] += 1
            st["at1" if me == "A" else "at2"] = st["n"][me]
            st["switched"] = True
            give(other)
            wait_turn(me)

    orig_handle = w.processor._handle_message

    def run(me: str, row: dict[str, Any]) -> None:
        tl.me = me
        tl.in_handler = False
        wait_turn(me)
        try:
            # poll + handle + ack by this thread, on this thread's own connection
            def handle(message: Any) -> None:
                tl.in_handler = True
                try:
                    orig_handle(message)
                finally:
                    tl.in_handler = False

            w.processor._handle_message = handle  # type: ignore[method-assign]  (same function for both threads; the flag is thread-local)
            w.deliver(row["id"])
        except BaseException as e:  # noqa: BLE001
            st["errors"].append("%s: %s: %s" % (me, type(e).__name__, str(e)[:160]))
        finally:
            st["done"][me] = True
            other = "B" if me == "A" else "A"
            give(other if not st["done"][other] else "main")

    HOOKS.on_statement = hook
    ta = threading.Thread(target=run, args=("A", arow), daemon=True)
    tb = threading.Thread(target=run, args=("B", brow), daemon=True)
    try:
        tb.start()
        ta.start()
        ta.join(timeout=120)
        tb.join(timeout=120)
        if ta.is_alive() or tb.is_alive():
            st["errors"].append("scheduler: worker thread did not finish (deadlock)")
    finally:
        HOOKS.on_statement = None
        w.processor._handle_message = orig_handle  # type: ignore[method-assign]
    return st



def two_worker_default_run(workload: str, j_sym: Any, inject_at: Any = None, inject: Callable[[World], None] | None = None,
                           post: Callable[[World, dict[str, Any], Any], tuple[str, Any] | None] | None = None, prop: str = "C09", compare: bool = True) -> bool:
    """C09 with two worker processes and the DEFAULT processor configuration on the second one:
    worker A handles the j-th message, commits, and dies before the acknowledgement; everything else
    - including the redelivery of that message once its lock lapses - is handled by worker B, whose
    duplicate filter was hydrated before A's commit.  No committed message may enter a handler again."""
    with hx.Path("two_worker_default:" + workload) as P:
        with hx.native():
            ref = reference(workload)
            w = World(dedup=True, lock_seconds=1.0)
            try:
                wf = WORKLOADS[workload]()
                w.submit(wf)
                w.second_worker()
                step = 0
                died = None
                injected = False
                while step < MAX_STEPS:
                    if not w.make_visible():
                        break
                    now = stubs.CLOCK.peek_ms()
                    vis = [r for r in w.rows() if r["attempts"] < w.queue_max_attempts and r["deliver_ms"] // 1000 <= now // 1000
                           and (r["lock_ms"] is None or r["lock_ms"] // 1000 < now // 1000)]
                    if not vis:
                        break
                    vis.sort(key=lambda r: (r["deliver_at"], r["id"]))
                    if inject is not None and not injected and hx.decide_eq(inject_at, step):
                        injected = True
                        inject(w)
                        continue
                    if died is None and hx.decide_eq(j_sym, step):
                        died = (step, vis[0]["message_type"])
                        w.active = "A"
                        w.deliver(vis[0]["id"], ack=False)  # handled and committed by A, never acknowledged
                        w.active = "B"
                    else:
                        w.active = "B" if died is not None else "A"
                        w.deliver(vis[0]["id"])
                    step += 1
                snap = w.snapshot()
                summ = summarize(snap)
                if died is None:
                    return True
                P.reached("%s step %d" % (workload, died[0]), {"workload": workload, "A_died_after_handling": died[1], "at_step": died[0]})
                info = {"workload": workload, "worker_A_died_after_handling": died[1], "at_step": died[0], "final": summ["stages"], "workflow": summ["workflow"], "injected": [1] if injected else []}
                if post is not None:
                    bad = post(w, snap, info)
                    if bad is not None:
                        return P.fail("%s/two_workers/%s/%s" % (prop, workload, bad[0]), {**info, "detail": bad[1]})
                bad = post_handled_once(w, snap, {})
                if bad is not None:
                    return P.fail("%s/two_workers/%s/%s" % (prop, workload, bad[0]), {**info, "detail": bad[1]})
                rs = ref["summary"]
                if compare and (summ["workflow"] != rs["workflow"] or summ["stages"] != rs["stages"]):
                    return P.fail("C09/two_workers/%s/outcome_differs/%s" % (workload, state_sig(summ)), {**info, "expected": rs["stages"]})
                return True
            finally:
                w.close()


# ----------------------------------------------------------------------------------------------- C19 on the real SQLite + real json
def stored_is_read_back_run(size_sym: Any, edit_sym: Any, path_sym: Any, who_sym: Any) -> bool:
    """C19 with the real sqlite3 and the real json module: two sibling stages whose context / outputs are
    byte-identical documents of a symbolic size class; one loaded copy is edited in memory (and either
    dropped, saved, or its save rejected); every later read of either stage returns exactly what is
    stored for it - no loaded object shares state with another one."""
    import copy as _copy

    from stabilize.errors import ConcurrencyError
    from vf.native import stage, workflow

    with hx.Path("stored_is_read_back") as P:
        with hx.native():
            sizes = [0, 40, 300, 1100, 5000, 70000]
            size = sizes[hx.pick(size_sym, len(sizes))]
            edit = hx.pick(edit_sym, 3)  # 0: top-level key, 1: nested list append, 2: nested dict key
            path = hx.pick(path_sym, 2)  # read back through retrieve_stage / retrieve
            who = hx.pick(who_sym, 3)  # 0: edited copy dropped, 1: edited copy saved, 2: edited copy's save rejected (stale version)
            w = World()
            try:
                doc = {"blob": "x" * size, "items": [1, 2, {"k": "v"}], "nested": {"a": {"b": [True, None, 1.5]}}, "uni": "\u00e9\u4e2d\"\\"}
                wf = workflow([stage("a", ctx=_copy.deepcopy(doc)), stage("b", ctx=_copy.deepcopy(doc))])
                for st in wf.stages:
                    st.outputs = _copy.deepcopy(doc)
                w.store.store(wf)
                ida, idb = [st.id for st in wf.stages]

                def read(sid: str) -> Any:
                    if path == 0:
                        return w.store.retrieve_stage(sid)
                    return next(st for st in w.store.retrieve(wf.id).stages if st.id == sid)

                want_a_ctx, want_a_out = _copy.deepcopy(read(ida).context), _copy.deepcopy(read(ida).outputs)
                want_b_ctx, want_b_out = _copy.deepcopy(read(idb).context), _copy.deepcopy(read(idb).outputs)
                P.reached("size=%d edit=%d path=%d who=%d" % (size, edit, path, who), {"size": size, "edit": edit, "read_through": ["retrieve_stage", "retrieve"][path], "edited_copy": ["dropped", "saved", "save rejected"][who]})
                victim = read(ida)
                other = read(ida) if who == 2 else None
                for target in (victim.context, victim.outputs):
                    if edit == 0:
                        target["added"] = "edited"
                    elif edit == 1:
                        target["items"].append("edited")
                    else:
                        target["nested"]["a"]["new"] = "edited"
                if who == 1:
                    w.store.store_stage(victim)
                    want_a_ctx, want_a_out = _copy.deepcopy(victim.context), _copy.deepcopy(victim.outputs)
                elif who == 2:
                    assert other is not None
                    other.context["winner"] = 1
                    w.store.store_stage(other)
                    want_a_ctx, want_a_out = _copy.deepcopy(other.context), _copy.deepcopy(other.outputs)
                    try:
                        w.store.store_stage(victim)
                        return P.fail("C19/alias/stale_save_accepted", {"size": size})
                    except ConcurrencyError:
                        pass
                info = {"size": size, "edit": ["top-level key", "nested list append", "nested dict key"][edit], "read_through": ["retrieve_stage", "retrieve"][path], "edited_copy": ["dropped", "saved", "save rejected"][who]}
                for _ in range(2):
                    got_a, got_b = read(ida), read(idb)
                    if got_a.context != want_a_ctx or got_a.outputs != want_a_out:
                        return P.fail("C19/alias/edited_stage_reads_back_differently/%s" % info["edited_copy"].replace(" ", "_"), info)
                    if got_b.context != want_b_ctx or got_b.outputs != want_b_out:
                        return P.fail("C19/alias/sibling_stage_changed/%s" % info["edited_copy"].replace(" ", "_"), info)
                return True
            finally:
                w.close()


def message_redelivery_roundtrip_run(kind_sym: Any, val_sym: Any, how_sym: Any) -> bool:
    """C19 for messages on the real sqlite3 + json: a message whose dict field holds awkward values (None,
    nested None, empty containers, non-ASCII) is delivered, sent back (reschedule after a handler error,
    or its lock lapses) and delivered again: every delivery carries exactly what was pushed."""
    import copy as _copy
    from datetime import timedelta

    from stabilize.queue.messages import AddMultiInstance, JumpToStage, SignalStage

    with hx.Path("message_redelivery_roundtrip") as P:
        with hx.native():
            vals = [
                {"previous_error": None, "attempt": 2},
                {"a": {"b": None, "c": [None, 1, {"d": None}]}, "e": ""},
                {},
                {"n": 0, "f": False, "z": [], "o": {}},
                {"uni": "\u00e9\u4e2d\"\\", "k": None},
            ]
            val = vals[hx.pick(val_sym, len(vals))]
            kind = hx.pick(kind_sym, 3)
            how = hx.pick(how_sym, 2)  # 0: reschedule() after set_error_context, 1: the lock lapses
            w = World(lock_seconds=1.0)
            try:
                if kind == 0:
                    msg: Any = SignalStage(execution_id="e1", stage_id="s1", signal_name="go", signal_data=_copy.deepcopy(val), persistent=True)
                    fld = "signal_data"
                elif kind == 1:
                    msg = JumpToStage(execution_id="e1", stage_id="s1", target_stage_ref_id="t", jump_context=_copy.deepcopy(val), jump_outputs=_copy.deepcopy(val))
                    fld = "jump_context"
                else:
                    msg = AddMultiInstance(execution_id="e1", stage_id="s1", instance_context=_copy.deepcopy(val))
                    fld = "instance_context"
                w.queue.push(msg)
                P.reached("%s %d %d" % (fld, hx.pick(val_sym, len(vals)), how), {"message": type(msg).__name__, "field": fld, "value": val, "sent_back_by": ["reschedule", "lock lapse"][how]})
                info = {"message": type(msg).__name__, "field": fld, "pushed": val, "sent_back_by": ["reschedule", "lock lapse"][how]}
                for delivery in (1, 2, 3):
                    if not w.make_visible():
                        return P.fail("C19/redelivery/message_gone_before_delivery_%d" % delivery, info)
                    got = w.queue.poll_one()
                    if got is None:
                        return P.fail("C19/redelivery/not_delivered_%d" % delivery, info)
                    if getattr(got, fld) != val or (kind == 1 and got.jump_outputs != val):
                        return P.fail("C19/redelivery/delivery_%d_differs_from_what_was_pushed/%s" % (delivery, type(msg).__name__), {**info, "delivered": getattr(got, fld)})
                    if how == 0:
                        got.set_error_context(ValueError("boom"))
                        w.queue.reschedule(got, timedelta(seconds=2))
                return True
            finally:
                w.close()
