"""S2 substrate wiring: the real store / queue / transaction / handler code over SymDB.

``install()`` replaces, inside the already imported stabilize modules only:
  * ``sqlite3`` in stabilize.persistence.connection  -> connections onto a SymDB instance
  * ``datetime`` in the modules that write instants to TEXT columns -> Instant / Iso over SymClock
  * (optional) ``json`` in persistence / queue / events modules -> JsonStub (opaque text carrying
    the Python value, so symbolic leaves survive a round trip)
Python's ``time.*`` stays on the concrete virtual clock of vf.stubs (only start/end stamps use it).
"""

from __future__ import annotations

import sqlite3 as _real_sqlite3
import sys
from typing import Any

from vf import hx, stubs, symdb

stubs.install()
hx.quiet_format()

import vf.native  # noqa: E402,F401  (direct task executor stub + workload builders; its sqlite shim is replaced below)
from stabilize.persistence import connection as _connmod  # noqa: E402
from stabilize.persistence.connection import ConnectionManager, SingletonMeta  # noqa: E402

_DBS: dict[str, symdb.DB] = {}
_SCHEMA: dict[str, symdb.TableMeta] | None = None


def schema() -> dict[str, symdb.TableMeta]:
    global _SCHEMA
    if _SCHEMA is None:
        with hx.native():
            _SCHEMA = symdb.load_schema()
    return _SCHEMA


class _Shim:
    IntegrityError = _real_sqlite3.IntegrityError
    OperationalError = _real_sqlite3.OperationalError
    Row = symdb.Row
    Connection = symdb.SymConn

    @staticmethod
    def connect(path: str, *a: Any, **k: Any) -> symdb.SymConn:
        db = _DBS.get(path)
        if db is None:
            db = symdb.DB(schema())
            _DBS[path] = db
        return db.connect()

    def __getattr__(self, name: str) -> Any:
        return getattr(_real_sqlite3, name)


_SHIM = _Shim()
_JSON_MODULE_PREFIXES = ("stabilize.persistence.sqlite", "stabilize.queue.sqlite", "stabilize.events.store.sqlite", "stabilize.events.snapshots")
_INSTALLED = False
_JSON_ON = False


def install(json_stub: bool = False) -> None:
    global _INSTALLED, _JSON_ON
    import json as _real_json

    _connmod.sqlite3 = _SHIM  # type: ignore[attr-defined]  (re-applied: vf.native installs its own shim at import)
    if not _INSTALLED:
        for name, mod in list(sys.modules.items()):
            if mod is None or not name.startswith("stabilize"):
                continue
            d = mod.__dict__
            if d.get("datetime") is stubs.FakeDateTime and name.startswith(
                ("stabilize.queue.sqlite", "stabilize.persistence.sqlite", "stabilize.events.store.sqlite", "stabilize.events.snapshots", "stabilize.persistence.task_lease")
            ):
                d["datetime"] = symdb.SymDateTimeClass
        _INSTALLED = True
    if json_stub and not _JSON_ON:
        for name, mod in list(sys.modules.items()):
            if mod is not None and name.startswith(_JSON_MODULE_PREFIXES) and mod.__dict__.get("json") is _real_json:
                mod.__dict__["json"] = symdb.JsonStub
        _JSON_ON = True


class SWorld:
    """One SymDB database + the real store and queue objects on it."""

    def __init__(self, name: str = "w", json_stub: bool = False, queue_max_attempts: int = 10, lock_seconds: int = 60) -> None:
        install(json_stub)
        with hx.native():
            stubs.reset()
            try:
                SingletonMeta.reset(ConnectionManager)
            except Exception:
                pass
            self.path = "/symdb/%s.db" % name
            _DBS.pop(self.path, None)
            self.db = symdb.DB(schema())
            _DBS[self.path] = self.db
            self.url = "sqlite:///" + self.path
            symdb.CLOCK.now = 1_700_000_000_000
            # one ConnectionManager per world, created outside the tracer (under tracing the
            # singleton metaclass hands out distinct instances) and returned by every lookup
            mgr = object.__new__(ConnectionManager)
            ConnectionManager.__init__(mgr)
            self.manager = mgr
            for name, mod in list(sys.modules.items()):
                if mod is not None and name.startswith("stabilize") and "get_connection_manager" in mod.__dict__:
                    mod.__dict__["get_connection_manager"] = lambda _m=mgr: _m
        from datetime import timedelta

        from stabilize import SqliteQueue, SqliteWorkflowStore

        self.store = SqliteWorkflowStore(self.url, create_tables=False)
        self.queue = SqliteQueue(self.url, lock_duration=timedelta(seconds=lock_seconds), max_attempts=queue_max_attempts)

    def conn(self) -> symdb.SymConn:
        return self.store._get_connection()  # type: ignore[return-value]

    def second_connection(self) -> symdb.SymConn:
        """A connection of another worker (thread-local connections are per worker)."""
        return self.db.connect()

    def table(self, name: str) -> list[dict[str, Any]]:
        return self.db.tables[name]

    def close(self) -> None:
        with hx.native():
            seen = hx.STATS.extra.setdefault("shapes", [])
            for sh in self.db.shapes:
                if sh not in seen:
                    seen.append(sh)
            try:
                SingletonMeta.reset(ConnectionManager)
            except Exception:
                pass
            _DBS.pop(self.path, None)
