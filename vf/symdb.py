"""SymDB - a pure-Python interpreter for the SQL text that stabilize's sqlite code emits (S2).

Cells hold Python values, which may be CrossHair symbolic ints/bools.  The interpreter itself runs
outside the tracer (native speed for bookkeeping); an operation one of whose operands is not a
concrete primitive is performed under tracing, i.e. decided by z3.

Covered grammar (everything else raises UnsupportedSQL -> harness error, never a verdict):
  SELECT items FROM t [, json_each(t.col)] [WHERE e] [ORDER BY c [ASC|DESC] [NULLS LAST]] [LIMIT e] [OFFSET e]
  INSERT [OR IGNORE] INTO t (cols) VALUES (exprs)
  UPDATE t SET c = e, ... [WHERE e]
  DELETE FROM t [WHERE e] [RETURNING items]
  e: OR AND NOT = == != <> < <= > >= IS [NOT] NULL, [NOT] IN (list | subselect), + -, literals,
     :named and ? parameters, datetime(x[, 'utc']), json_extract(c, '$.k'), COUNT(*), MAX(c), COALESCE
Table metadata (columns, defaults, PRIMARY KEY, UNIQUE, AUTOINCREMENT) is read from the repo's own
DDL executed on a real in-memory sqlite3 (PRAGMA table_info / index_list), i.e. regenerated from
/repo on every run.
"""

from __future__ import annotations

import re
import sqlite3 as _real_sqlite3
from typing import Any

from vf import hx

PRIMS = (int, str, bool, float, type(None), bytes)


class UnsupportedSQL(Exception):
    pass


class IntegrityError(_real_sqlite3.IntegrityError):
    pass


def is_concrete(x: Any) -> bool:
    return type(x) in PRIMS


# ----------------------------------------------------------------------------------------- time values
class Iso:
    """ISO-8601 text of an instant, as written by ``datetime.isoformat()``: compares like the
    instant it denotes (true for the fixed-width UTC format the engine writes)."""

    __slots__ = ("ms",)

    def __init__(self, ms: Any) -> None:
        self.ms = ms

    def __repr__(self) -> str:
        return "Iso(%r)" % (self.ms,)

    def __eq__(self, o: Any) -> Any:
        return isinstance(o, Iso) and self.ms == o.ms

    def __hash__(self) -> int:
        return 7

    def __lt__(self, o: "Iso") -> Any:
        return self.ms < o.ms

    def __le__(self, o: "Iso") -> Any:
        return self.ms <= o.ms


class SymClock:
    """The one clock of an S2 world; the harness sets ``now`` (symbolic ms) between operations."""

    def __init__(self) -> None:
        self.now: Any = 1_700_000_000_000


CLOCK = SymClock()


class Instant:
    """Replacement of datetime objects inside the code under test (S2 only)."""

    __slots__ = ("ms",)

    def __init__(self, ms: Any) -> None:
        self.ms = ms

    def __add__(self, td: Any) -> "Instant":
        return Instant(self.ms + _td_ms(td))

    __radd__ = __add__

    def __sub__(self, o: Any) -> Any:
        if isinstance(o, Instant):
            raise UnsupportedSQL("Instant - Instant")
        return Instant(self.ms - _td_ms(o))

    def isoformat(self) -> Iso:
        return Iso(self.ms)

    def timestamp(self) -> Any:
        return self.ms / 1000

    def __repr__(self) -> str:
        return "Instant(%r)" % (self.ms,)


def _td_ms(td: Any) -> int:
    return td.days * 86_400_000 + td.seconds * 1000 + td.microseconds // 1000


class SymDateTime:
    """Stands in for the ``datetime`` class in the modules under test."""

    @staticmethod
    def now(tz: Any = None) -> Instant:
        return Instant(CLOCK.now)

    @staticmethod
    def utcnow() -> Instant:
        return Instant(CLOCK.now)

    @staticmethod
    def fromisoformat(x: Any) -> Instant:
        if isinstance(x, Iso):
            return Instant(x.ms)
        raise UnsupportedSQL("fromisoformat of %r" % (x,))


import datetime as _dtmod  # noqa: E402

_REAL_DATETIME_CLASS = _dtmod.datetime  # captured at import: while tracing CrossHair swaps the module's classes


class _SymDTMeta(type):
    def __instancecheck__(cls, inst: Any) -> bool:
        if type(inst) is Instant or type(inst) is _REAL_DATETIME_CLASS:
            return True
        return type(inst).__name__ == "datetime" and hasattr(inst, "isoformat")

    def __subclasscheck__(cls, sub: Any) -> bool:
        # CrossHair evaluates isinstance(x, T) as issubclass(type(x), T) while tracing
        return sub is Instant or sub is _REAL_DATETIME_CLASS or (getattr(sub, "__name__", "") == "datetime" and hasattr(sub, "isoformat")) or type.__subclasscheck__(cls, sub)


class SymDateTimeClass(SymDateTime, metaclass=_SymDTMeta):
    pass


# ----------------------------------------------------------------------------------------- JSON values
class JText(str):
    """What the json stub's dumps() returns: opaque text (a str, like real JSON text) carrying the
    Python value, so that symbolic leaves survive a store round trip.  loads(dumps(x)) == x for
    JSON-representable x.  The character content is a placeholder and is never parsed."""

    def __new__(cls, obj: Any) -> "JText":
        self = super().__new__(cls, "<json>")
        self.obj = obj
        return self

    def __repr__(self) -> str:
        return "JText(%r)" % (self.obj,)

    def __eq__(self, o: Any) -> Any:
        return isinstance(o, JText) and self.obj == o.obj

    def __ne__(self, o: Any) -> Any:
        return not self.__eq__(o)

    def __hash__(self) -> int:
        return 11

    def __bool__(self) -> bool:
        return True


def _jcopy(x: Any, default: Any = None) -> Any:
    """Deep copy restricted to JSON-representable values (what json.dumps would accept)."""
    if isinstance(x, dict):
        out = {}
        for k, v in x.items():
            if not isinstance(k, (str, int, float, bool)) and k is not None:
                raise TypeError("keys must be str, int, float, bool or None, not %s" % type(k).__name__)
            out[k if isinstance(k, str) else _json_key(k)] = _jcopy(v, default)
        return out
    if isinstance(x, (list, tuple)):
        return [_jcopy(v, default) for v in x]
    if x is None or isinstance(x, (str, bool, int, float)):
        return x
    if not is_concrete(x) and not isinstance(x, (set, frozenset, bytes)):
        # symbolic int / bool / str leaf
        tn = type(x).__name__
        if "Symbolic" in tn or "Lazy" in tn or "AnySymbolic" in tn:
            return x
    if default is not None:
        return _jcopy(default(x), None)
    raise TypeError("Object of type %s is not JSON serializable" % type(x).__name__)


def _json_key(k: Any) -> str:
    if k is True:
        return "true"
    if k is False:
        return "false"
    if k is None:
        return "null"
    return str(k)


class JsonStub:
    """Stands in for the ``json`` module inside stabilize.persistence.*, stabilize.queue.*, stabilize.events.*"""

    JSONDecodeError = ValueError

    @staticmethod
    def dumps(obj: Any, default: Any = None, **kw: Any) -> JText:
        return JText(_jcopy(obj, default))

    @staticmethod
    def loads(s: Any, **kw: Any) -> Any:
        if isinstance(s, JText):
            return _jcopy(s.obj)
        import json

        return json.loads(s, **kw)


# ----------------------------------------------------------------------------------------- tokenizer / parser
_TOK = re.compile(
    r"\s*(?:(?P<num>\d+)|(?P<str>'(?:[^']|'')*')|(?P<param>:[A-Za-z_][A-Za-z_0-9]*|\?)|(?P<id>[A-Za-z_][A-Za-z_0-9]*)|(?P<op><=|>=|<>|!=|==|\|\||[=<>(),.*+\-;]))"
)
_KW = {
    "SELECT", "FROM", "WHERE", "AND", "OR", "NOT", "IS", "NULL", "IN", "ORDER", "BY", "ASC", "DESC", "NULLS", "LAST",
    "FIRST", "LIMIT", "OFFSET", "INSERT", "IGNORE", "REPLACE", "INTO", "VALUES", "UPDATE", "SET", "DELETE", "RETURNING", "AS",
    "CASE", "LIKE", "JOIN", "GROUP", "HAVING", "UNION", "DISTINCT", "BETWEEN", "EXISTS",
}


def tokenize(sql: str) -> list[tuple[str, str]]:
    out = []
    pos = 0
    sql = sql.strip()
    while pos < len(sql):
        m = _TOK.match(sql, pos)
        if not m or m.end() == pos:
            raise UnsupportedSQL("cannot tokenize at %r" % sql[pos:pos + 30])
        pos = m.end()
        if m.group("num") is not None:
            out.append(("num", m.group("num")))
        elif m.group("str") is not None:
            out.append(("str", m.group("str")[1:-1].replace("''", "'")))
        elif m.group("param") is not None:
            out.append(("param", m.group("param")))
        elif m.group("id") is not None:
            w = m.group("id")
            out.append(("kw", w.upper()) if w.upper() in _KW else ("id", w))
        else:
            out.append(("op", m.group("op")))
    return out


class Parser:
    def __init__(self, sql: str) -> None:
        self.sql = sql
        self.t = tokenize(sql)
        self.i = 0
        self.qmarks = 0

    def peek(self, k: int = 0) -> tuple[str, str]:
        return self.t[self.i + k] if self.i + k < len(self.t) else ("eof", "")

    def next(self) -> tuple[str, str]:
        tok = self.peek()
        self.i += 1
        return tok

    def accept(self, kind: str, val: str | None = None) -> bool:
        k, v = self.peek()
        if k == kind and (val is None or v == val):
            self.i += 1
            return True
        return False

    def expect(self, kind: str, val: str | None = None) -> str:
        k, v = self.next()
        if k != kind or (val is not None and v != val):
            raise UnsupportedSQL("expected %s %s, got %s %r in %r" % (kind, val, k, v, self.sql[:200]))
        return v

    # ---- statements
    def statement(self) -> tuple:
        k, v = self.peek()
        if (k, v) == ("kw", "SELECT"):
            st = self.select()
        elif (k, v) == ("kw", "INSERT"):
            st = self.insert()
        elif (k, v) == ("kw", "UPDATE"):
            st = self.update()
        elif (k, v) == ("kw", "DELETE"):
            st = self.delete()
        else:
            raise UnsupportedSQL("statement %r" % self.sql[:120])
        self.accept("op", ";")
        if self.peek()[0] != "eof":
            raise UnsupportedSQL("trailing tokens %r in %r" % (self.t[self.i:self.i + 4], self.sql[:200]))
        return st

    def items(self) -> list:
        out = []
        while True:
            if self.accept("op", "*"):
                out.append(("star", None))
            elif self.peek()[0] == "id" and self.peek(1) == ("op", ".") and self.peek(2) == ("op", "*"):
                t = self.next()[1]
                self.next()
                self.next()
                out.append(("star", t))
            else:
                e = self.expr()
                alias = None
                if self.accept("kw", "AS"):
                    alias = self.expect("id")
                out.append(("expr", e, alias))
            if not self.accept("op", ","):
                return out

    def select(self) -> tuple:
        self.expect("kw", "SELECT")
        items = self.items()
        self.expect("kw", "FROM")
        table = self.expect("id")
        each = None
        if self.accept("op", ","):
            fn = self.expect("id")
            if fn.lower() != "json_each":
                raise UnsupportedSQL("join with %s" % fn)
            self.expect("op", "(")
            each = self.colref()
            self.expect("op", ")")
        where = self.expr() if self.accept("kw", "WHERE") else None
        order = None
        if self.accept("kw", "ORDER"):
            self.expect("kw", "BY")
            col = self.colref()
            desc = False
            if self.accept("kw", "DESC"):
                desc = True
            else:
                self.accept("kw", "ASC")
            nulls_last = False
            if self.accept("kw", "NULLS"):
                if self.accept("kw", "LAST"):
                    nulls_last = True
                else:
                    self.expect("kw", "FIRST")
            order = (col, desc, nulls_last)
        limit = self.expr() if self.accept("kw", "LIMIT") else None
        offset = self.expr() if self.accept("kw", "OFFSET") else None
        return ("select", items, table, each, where, order, limit, offset)

    def insert(self) -> tuple:
        self.expect("kw", "INSERT")
        conflict = None
        if self.accept("kw", "OR"):
            conflict = self.next()[1]
            if conflict not in ("IGNORE",):
                raise UnsupportedSQL("INSERT OR %s" % conflict)
        self.expect("kw", "INTO")
        table = self.expect("id")
        self.expect("op", "(")
        cols = [self.expect("id")]
        while self.accept("op", ","):
            cols.append(self.expect("id"))
        self.expect("op", ")")
        self.expect("kw", "VALUES")
        self.expect("op", "(")
        vals = [self.expr()]
        while self.accept("op", ","):
            vals.append(self.expr())
        self.expect("op", ")")
        if len(vals) != len(cols):
            raise UnsupportedSQL("INSERT arity")
        return ("insert", conflict, table, cols, vals)

    def update(self) -> tuple:
        self.expect("kw", "UPDATE")
        table = self.expect("id")
        self.expect("kw", "SET")
        sets = []
        while True:
            c = self.expect("id")
            self.expect("op", "=")
            sets.append((c, self.expr()))
            if not self.accept("op", ","):
                break
        where = self.expr() if self.accept("kw", "WHERE") else None
        return ("update", table, sets, where)

    def delete(self) -> tuple:
        self.expect("kw", "DELETE")
        self.expect("kw", "FROM")
        table = self.expect("id")
        where = self.expr() if self.accept("kw", "WHERE") else None
        ret = self.items() if self.accept("kw", "RETURNING") else None
        return ("delete", table, where, ret)

    # ---- expressions
    def colref(self) -> tuple:
        a = self.expect("id")
        if self.accept("op", "."):
            return ("col", a, self.expect("id"))
        return ("col", None, a)

    def expr(self) -> tuple:
        e = self.and_()
        while self.accept("kw", "OR"):
            e = ("or", e, self.and_())
        return e

    def and_(self) -> tuple:
        e = self.not_()
        while self.accept("kw", "AND"):
            e = ("and", e, self.not_())
        return e

    def not_(self) -> tuple:
        if self.accept("kw", "NOT"):
            return ("not", self.not_())
        return self.cmp()

    def cmp(self) -> tuple:
        e = self.add()
        k, v = self.peek()
        if k == "op" and v in ("=", "==", "!=", "<>", "<", "<=", ">", ">="):
            self.next()
            return ("cmp", {"==": "=", "<>": "!="}.get(v, v), e, self.add())
        if (k, v) == ("kw", "IS"):
            self.next()
            neg = self.accept("kw", "NOT")
            self.expect("kw", "NULL")
            return ("isnull", e, neg)
        neg = False
        if (k, v) == ("kw", "NOT") and self.peek(1) == ("kw", "IN"):
            self.next()
            neg = True
        if self.accept("kw", "IN"):
            self.expect("op", "(")
            if self.peek() == ("kw", "SELECT"):
                sub = self.select()
                self.expect("op", ")")
                return ("insub", e, sub, neg)
            vals = [self.expr()]
            while self.accept("op", ","):
                vals.append(self.expr())
            self.expect("op", ")")
            return ("in", e, vals, neg)
        if (k, v) in (("kw", "LIKE"), ("kw", "BETWEEN")):
            raise UnsupportedSQL(v)
        return e

    def add(self) -> tuple:
        e = self.term()
        while self.peek() in (("op", "+"), ("op", "-")):
            op = self.next()[1]
            e = ("arith", op, e, self.term())
        return e

    def term(self) -> tuple:
        k, v = self.next()
        if k == "num":
            return ("lit", int(v))
        if k == "str":
            return ("lit", v)
        if k == "param":
            if v == "?":
                self.qmarks += 1
                return ("qmark", self.qmarks - 1)
            return ("param", v[1:])
        if (k, v) == ("kw", "NULL"):
            return ("lit", None)
        if (k, v) == ("op", "("):
            e = self.expr()
            self.expect("op", ")")
            return e
        if (k, v) == ("op", "-"):
            return ("arith", "-", ("lit", 0), self.term())
        if k == "id":
            if self.accept("op", "("):
                args: list = []
                if self.accept("op", "*"):
                    args = ["*"]
                elif self.peek() != ("op", ")"):
                    args = [self.expr()]
                    while self.accept("op", ","):
                        args.append(self.expr())
                self.expect("op", ")")
                return ("call", v.lower(), args)
            if self.accept("op", "."):
                return ("col", v, self.expect("id"))
            return ("col", None, v)
        raise UnsupportedSQL("term %s %r in %r" % (k, v, self.sql[:200]))


_PARSE_CACHE: dict[str, tuple] = {}


def parse(sql: str) -> tuple:
    key = " ".join(sql.split())
    st = _PARSE_CACHE.get(key)
    if st is None:
        st = Parser(key).statement()
        _PARSE_CACHE[key] = st
    return st


def shape_of(sql: str) -> str:
    """Statement shape with literals and parameter names erased (coverage bookkeeping)."""
    s = " ".join(sql.split())
    s = re.sub(r"'(?:[^']|'')*'", "'S'", s)
    s = re.sub(r":[A-Za-z_][A-Za-z_0-9]*", ":p", s)
    s = re.sub(r"\b\d+\b", "N", s)
    s = re.sub(r"\((?::p|\?)(?:, ?(?::p|\?))*\)", "(:p*)", s)
    return s


# ----------------------------------------------------------------------------------------- schema
class TableMeta:
    def __init__(self, name: str, cols: list[str], defaults: dict[str, Any], pk: list[str], uniques: list[list[str]], autoinc: bool, notnull: set[str]) -> None:
        self.name = name
        self.cols = cols
        self.defaults = defaults  # col -> parsed expr or None
        self.pk = pk
        self.uniques = uniques
        self.autoinc = autoinc
        self.notnull = notnull


def load_schema() -> dict[str, TableMeta]:
    """Run the repo's own DDL on a real in-memory sqlite3 and read the table metadata back."""
    from stabilize.events.store.sqlite.schema import EVENTS_SCHEMA, SNAPSHOTS_SCHEMA, SUBSCRIPTIONS_SCHEMA
    from stabilize.persistence.sqlite.schema import create_tables
    from stabilize.queue.sqlite.schema import create_queue_tables

    conn = _real_sqlite3.connect(":memory:")
    try:
        create_tables(conn)
        create_queue_tables(conn, "queue_messages")
        for ddl in (EVENTS_SCHEMA, SNAPSHOTS_SCHEMA, SUBSCRIPTIONS_SCHEMA):
            conn.executescript(ddl)
        try:
            from stabilize.persistence.sqlite.signals import create_signals_table

            create_signals_table(conn)
        except Exception:
            pass
        metas: dict[str, TableMeta] = {}
        for (name, sql) in conn.execute("SELECT name, sql FROM sqlite_master WHERE type='table'").fetchall():
            if name.startswith("sqlite_"):
                continue
            info = conn.execute("PRAGMA table_info(%s)" % name).fetchall()
            cols = [r[1] for r in info]
            defaults: dict[str, Any] = {}
            notnull = set()
            for r in info:
                if r[4] is not None:
                    try:
                        defaults[r[1]] = Parser(str(r[4])).expr()
                    except UnsupportedSQL:
                        defaults[r[1]] = ("unsupported_default", str(r[4]))
                if r[3]:
                    notnull.add(r[1])
            pk = [r[1] for r in sorted((r for r in info if r[5]), key=lambda r: r[5])]
            uniques = []
            for idx in conn.execute("PRAGMA index_list(%s)" % name).fetchall():
                if idx[2] and idx[3] != "pk":
                    icols = [r[2] for r in conn.execute("PRAGMA index_info(%s)" % idx[1]).fetchall()]
                    if all(c is not None for c in icols):
                        uniques.append(icols)
            autoinc = "AUTOINCREMENT" in (sql or "").upper()
            metas[name] = TableMeta(name, cols, defaults, pk, uniques, autoinc, notnull)
        return metas
    finally:
        conn.close()


# ----------------------------------------------------------------------------------------- engine
class Cursor:
    def __init__(self, rows: list | None = None, rowcount: int = -1, lastrowid: Any = None, cols: list[str] | None = None) -> None:
        self._rows = rows or []
        self.rowcount = rowcount
        self.lastrowid = lastrowid
        self._i = 0
        self.description = [(c, None, None, None, None, None, None) for c in (cols or [])]

    def fetchone(self) -> Any:
        if self._i < len(self._rows):
            r = self._rows[self._i]
            self._i += 1
            return r
        return None

    def fetchall(self) -> list:
        r = self._rows[self._i:]
        self._i = len(self._rows)
        return r

    def __iter__(self):
        return iter(self.fetchall())


class Row:
    __slots__ = ("_c", "_v")

    def __init__(self, cols: list[str], vals: list[Any]) -> None:
        self._c = cols
        self._v = vals

    def __getitem__(self, k: Any) -> Any:
        if isinstance(k, str):
            try:
                return self._v[self._c.index(k)]
            except ValueError:
                raise IndexError("No item with that key: %s" % k)
        return self._v[k]

    def keys(self) -> list[str]:
        return list(self._c)

    def __iter__(self):
        return iter(self._v)

    def __len__(self) -> int:
        return len(self._v)

    def items(self) -> list[tuple[str, Any]]:
        # not part of sqlite3.Row; only here so that dict(row) works under CrossHair, whose dict() shim knows
        # Mapping instances and iterables of pairs but not the keys()/__getitem__ protocol sqlite3.Row relies on
        return list(zip(self._c, self._v))

    def __repr__(self) -> str:
        return "Row(%r)" % dict(zip(self._c, self._v))


import collections.abc as _abc  # noqa: E402

_abc.Mapping.register(Row)


def _truth(v: Any) -> bool:
    """Decide a (possibly symbolic) SQL boolean.  NULL is not true."""
    if v is None:
        return False
    if type(v) is bool:
        return v
    if type(v) is int:
        return v != 0
    return hx.decide(v)


class DB:
    def __init__(self, metas: dict[str, TableMeta] | None = None) -> None:
        self.meta = metas if metas is not None else load_schema()
        self.tables: dict[str, list[dict[str, Any]]] = {t: [] for t in self.meta}
        self.seq: dict[str, int] = {t: 0 for t in self.meta}
        self.writer: "SymConn | None" = None
        self.shapes: set[str] = set()
        self.log: list[tuple[str, str, Any, Any, Any]] = []  # committed cell writes (table, col, key, old, new)
        self.statements = 0

    def connect(self) -> "SymConn":
        return SymConn(self)

    def dump(self) -> dict[str, list[dict[str, Any]]]:
        return {t: [dict(r) for r in rows] for t, rows in self.tables.items()}


class SymConn:
    """sqlite3.Connection look-alike over a DB (legacy transaction control: a write statement
    opens a transaction implicitly; commit()/rollback() end it)."""

    def __init__(self, db: DB) -> None:
        self.db = db
        self.work: dict[str, list[dict[str, Any]]] | None = None
        self.work_seq: dict[str, int] | None = None
        self.row_factory = None
        self.pre_statement = None  # hook(conn, parsed) used by interleaving harnesses
        self.closed = False

    # -- transaction control
    @property
    def in_transaction(self) -> bool:
        return self.work is not None

    def _begin(self) -> None:
        if self.work is None:
            if self.db.writer is not None and self.db.writer is not self:
                raise hx.HarnessError("schedule lets a second connection write while another holds the write lock")
            self.db.writer = self
            self.work = {t: [dict(r) for r in rows] for t, rows in self.db.tables.items()}
            self.work_seq = dict(self.db.seq)

    def commit(self) -> None:
        with hx.native():
            if self.work is not None:
                self.db.tables = self.work
                self.db.seq = self.work_seq or self.db.seq
                self.work = None
                self.work_seq = None
                self.db.writer = None

    def rollback(self) -> None:
        with hx.native():
            if self.work is not None:
                self.work = None
                self.work_seq = None
                self.db.writer = None

    def close(self) -> None:
        self.rollback()
        self.closed = True

    def create_function(self, *a: Any, **k: Any) -> None:
        pass

    def executescript(self, script: str) -> Cursor:
        return Cursor()

    def cursor(self) -> "SymConn":
        return self

    # -- statements
    def execute(self, sql: str, params: Any = None) -> Cursor:
        with hx.native():
            head = sql.lstrip()[:12].upper()
            if head.startswith(("CREATE", "PRAGMA", "ALTER", "DROP", "BEGIN", "ANALYZE", "VACUUM")):
                return Cursor()
            if " ".join(sql.split()).upper().rstrip(";") == "SELECT 1":
                return Cursor([Row(["1"], [1])], -1, None, ["1"])
            st = parse(sql)
            self.db.shapes.add(shape_of(sql))
            self.db.statements += 1
            if self.pre_statement is not None:
                with hx.symbolic():  # the hook runs code under test (another worker): traced
                    self.pre_statement(self, st)
            env = _Env(self, params)
            kind = st[0]
            if kind == "select":
                rows, cols = env.select(st)
                return Cursor([Row(cols, r) for r in rows], -1, None, cols)
            self._begin()
            if kind == "insert":
                return env.insert(st)
            if kind == "update":
                return env.update(st)
            if kind == "delete":
                return env.delete(st)
            raise UnsupportedSQL(kind)

    def view(self) -> dict[str, list[dict[str, Any]]]:
        return self.work if self.work is not None else self.db.tables


class _Env:
    def __init__(self, conn: SymConn, params: Any) -> None:
        self.conn = conn
        self.params = params

    # ---- expression evaluation (row = dict col->value, each = current json_each value)
    def ev(self, e: tuple, row: dict[str, Any] | None, each: Any = None) -> Any:
        k = e[0]
        if k == "lit":
            return e[1]
        if k == "param":
            try:
                return self.params[e[1]]
            except (KeyError, TypeError):
                raise hx.HarnessError("missing SQL parameter :%s" % e[1])
        if k == "qmark":
            return self.params[e[1]]
        if k == "col":
            if e[1] is not None and e[1].lower() == "json_each":
                if e[2] == "value":
                    return each
                raise UnsupportedSQL("json_each.%s" % e[2])
            if row is None or e[2] not in row:
                raise UnsupportedSQL("unknown column %s" % e[2])
            return row[e[2]]
        if k == "and":
            a = self.ev(e[1], row, each)
            if a is not None and not _truth(a):
                return False
            b = self.ev(e[2], row, each)
            if b is not None and not _truth(b):
                return False
            return None if (a is None or b is None) else True
        if k == "or":
            a = self.ev(e[1], row, each)
            if a is not None and _truth(a):
                return True
            b = self.ev(e[2], row, each)
            if b is not None and _truth(b):
                return True
            return None if (a is None or b is None) else False
        if k == "not":
            a = self.ev(e[1], row, each)
            return None if a is None else (not _truth(a))
        if k == "isnull":
            a = self.ev(e[1], row, each)
            return (a is not None) if e[2] else (a is None)
        if k == "cmp":
            a, b = self.ev(e[2], row, each), self.ev(e[3], row, each)
            if a is None or b is None:
                return None
            return _compare(e[1], a, b)
        if k == "in":
            a = self.ev(e[1], row, each)
            if a is None:
                return None
            hit = False
            for ve in e[2]:
                b = self.ev(ve, row, each)
                if b is not None and _truth(_compare("=", a, b)):
                    hit = True
                    break
            return (not hit) if e[3] else hit
        if k == "insub":
            a = self.ev(e[1], row, each)
            if a is None:
                return None
            rows, _ = self.select(e[2])
            hit = any(r[0] is not None and _truth(_compare("=", a, r[0])) for r in rows)
            return (not hit) if e[3] else hit
        if k == "arith":
            a, b = self.ev(e[2], row, each), self.ev(e[3], row, each)
            if a is None or b is None:
                return None
            if is_concrete(a) and is_concrete(b):
                return a + b if e[1] == "+" else a - b
            with hx.symbolic():
                return a + b if e[1] == "+" else a - b
        if k == "call":
            return self.call(e[1], e[2], row, each)
        raise UnsupportedSQL("expression %r" % (e,))

    def call(self, fn: str, args: list, row: dict[str, Any] | None, each: Any) -> Any:
        if fn == "datetime":
            a0 = self.ev(args[0], row, each)
            for m in args[1:]:
                mv = self.ev(m, row, each)
                if not (isinstance(mv, str) and mv.lower() in ("utc", "localtime")):
                    raise UnsupportedSQL("datetime modifier %r" % (mv,))
            if a0 is None:
                return None
            if isinstance(a0, str) and a0.lower() == "now":
                return _SqlTime(_floor_s(CLOCK.now))
            if isinstance(a0, Iso):
                return _SqlTime(_floor_s(a0.ms))
            if isinstance(a0, _SqlTime):
                return a0
            raise UnsupportedSQL("datetime(%r)" % (a0,))
        if fn == "json_extract":
            doc = self.ev(args[0], row, each)
            path = self.ev(args[1], row, each)
            if doc is None:
                return None
            if not (isinstance(path, str) and path.startswith("$.")):
                raise UnsupportedSQL("json path %r" % (path,))
            obj = doc.obj if isinstance(doc, JText) else __import__("json").loads(doc)
            for part in path[2:].split("."):
                if not isinstance(obj, dict) or part not in obj:
                    return None
                obj = obj[part]
            return obj
        if fn == "coalesce":
            for a in args:
                v = self.ev(a, row, each)
                if v is not None:
                    return v
            return None
        raise UnsupportedSQL("function %s" % fn)

    # ---- statements
    def _rows(self, table: str) -> list[dict[str, Any]]:
        view = self.conn.view()
        if table not in view:
            raise UnsupportedSQL("unknown table %s" % table)
        return view[table]

    def _scan(self, table: str, each_col: tuple | None, where: tuple | None):
        for r in self._rows(table):
            if each_col is None:
                if where is None or _truth(self.ev(where, r)):
                    yield r, None
            else:
                doc = r[each_col[2]]
                vals = doc.obj if isinstance(doc, JText) else (__import__("json").loads(doc) if doc else [])
                for v in (vals or []):
                    if where is None or _truth(self.ev(where, r, v)):
                        yield r, v

    def select(self, st: tuple) -> tuple[list[list[Any]], list[str]]:
        _, items, table, each_col, where, order, limit, offset = st
        meta = self.conn.db.meta.get(table)
        if meta is None:
            raise UnsupportedSQL("unknown table %s" % table)
        agg = [it for it in items if it[0] == "expr" and it[1][0] == "call" and it[1][1] in ("count", "max", "min")]
        matched = list(self._scan(table, each_col, where))
        if agg:
            if len(items) != 1:
                raise UnsupportedSQL("mixed aggregate")
            fn, args = items[0][1][1], items[0][1][2]
            if fn == "count":
                return [[len(matched)]], ["COUNT(*)"]
            vals = [self.ev(args[0], r, v) for r, v in matched]
            vals = [x for x in vals if x is not None]
            if not vals:
                return [[None]], [fn]
            best = vals[0]
            for x in vals[1:]:
                if _truth(_compare(">" if fn == "max" else "<", x, best)):
                    best = x
            return [[best]], [fn]
        if order is not None:
            col, desc, nulls_last = order
            matched = _sort(matched, col[2], desc, nulls_last)
        if offset is not None:
            matched = matched[int(self.ev(offset, None)):]
        if limit is not None:
            matched = matched[: int(self.ev(limit, None))]
        cols: list[str] = []
        first = True
        out = []
        for r, v in matched:
            vals = []
            for it in items:
                if it[0] == "star":
                    for c in meta.cols:
                        vals.append(r[c])
                        if first:
                            cols.append(c)
                else:
                    vals.append(self.ev(it[1], r, v))
                    if first:
                        cols.append(it[2] or (it[1][2] if it[1][0] == "col" else "expr"))
            first = False
            out.append(vals)
        if first:
            for it in items:
                if it[0] == "star":
                    cols.extend(meta.cols)
                else:
                    cols.append(it[2] or (it[1][2] if it[1][0] == "col" else "expr"))
        return out, cols

    def insert(self, st: tuple) -> Cursor:
        _, conflict, table, cols, vals = st
        meta = self.conn.db.meta.get(table)
        if meta is None:
            raise UnsupportedSQL("unknown table %s" % table)
        row: dict[str, Any] = {}
        for c in meta.cols:
            d = meta.defaults.get(c)
            if d is None:
                row[c] = None
            elif d[0] == "unsupported_default":
                raise UnsupportedSQL("default %s" % d[1])
            else:
                row[c] = self.ev(d, None)
                if isinstance(row[c], _SqlTime):
                    row[c] = _iso_of_sqltime(row[c])
        for c, e in zip(cols, vals):
            if c not in row:
                raise UnsupportedSQL("unknown column %s.%s" % (table, c))
            v = self.ev(e, None)
            row[c] = _iso_of_sqltime(v) if isinstance(v, _SqlTime) else v
        rows = self._rows(table)
        assert self.conn.work_seq is not None
        if meta.autoinc and len(meta.pk) == 1 and row[meta.pk[0]] is None:
            self.conn.work_seq[table] += 1
            row[meta.pk[0]] = self.conn.work_seq[table]
        for c in meta.notnull:
            if row[c] is None and not (meta.autoinc and c in meta.pk):
                raise IntegrityError("NOT NULL constraint failed: %s.%s" % (table, c))
        keys = ([meta.pk] if meta.pk else []) + meta.uniques
        for key in keys:
            if any(row[c] is None for c in key):
                continue
            for r in rows:
                same = True
                for c in key:
                    if r[c] is None or not _truth(_compare("=", r[c], row[c])):
                        same = False
                        break
                if same:
                    if conflict == "IGNORE":
                        return Cursor([], 0, None)
                    raise IntegrityError("UNIQUE constraint failed: %s.%s" % (table, ", ".join(key)))
        rows.append(row)
        return Cursor([], 1, row[meta.pk[0]] if len(meta.pk) == 1 else None)

    def update(self, st: tuple) -> Cursor:
        _, table, sets, where = st
        n = 0
        for r, _ in list(self._scan(table, None, where)):
            new = {c: self.ev(e, r) for c, e in sets}
            for c, v in new.items():
                if c not in r:
                    raise UnsupportedSQL("unknown column %s.%s" % (table, c))
                r[c] = _iso_of_sqltime(v) if isinstance(v, _SqlTime) else v
            n += 1
        return Cursor([], n, None)

    def delete(self, st: tuple) -> Cursor:
        _, table, where, ret = st
        rows = self._rows(table)
        hit = [r for r, _ in self._scan(table, None, where)]
        out = []
        cols: list[str] = []
        meta = self.conn.db.meta[table]
        for r in hit:
            if ret is not None:
                vals = []
                cols = []
                for it in ret:
                    if it[0] == "star":
                        for c in meta.cols:
                            vals.append(r[c])
                            cols.append(c)
                    else:
                        vals.append(self.ev(it[1], r))
                        cols.append(it[2] or it[1][2])
                out.append(Row(cols, vals))
        for r in hit:
            for i, x in enumerate(rows):
                if x is r:
                    del rows[i]
                    break
        return Cursor(out, len(hit), None, cols)


class _SqlTime:
    """Result of SQL datetime(): text 'YYYY-MM-DD HH:MM:SS' = whole seconds."""

    __slots__ = ("s",)

    def __init__(self, s: Any) -> None:
        self.s = s


def _iso_of_sqltime(v: "_SqlTime") -> Iso:
    if is_concrete(v.s):
        return Iso(v.s * 1000)
    with hx.symbolic():
        return Iso(v.s * 1000)


def _floor_s(ms: Any) -> Any:
    if is_concrete(ms):
        return ms // 1000
    with hx.symbolic():
        return ms // 1000


def _compare(op: str, a: Any, b: Any) -> Any:
    if isinstance(a, _SqlTime) or isinstance(b, _SqlTime):
        if not (isinstance(a, _SqlTime) and isinstance(b, _SqlTime)):
            raise UnsupportedSQL("comparison of datetime() with %r" % ((a, b),))
        a, b = a.s, b.s
    if isinstance(a, Iso) or isinstance(b, Iso):
        if not (isinstance(a, Iso) and isinstance(b, Iso)):
            raise UnsupportedSQL("comparison of ISO text with %r" % ((a, b),))
        a, b = a.ms, b.ms
    if isinstance(a, JText) or isinstance(b, JText):
        if op not in ("=", "!="):
            raise UnsupportedSQL("ordering JSON text")
        r = isinstance(a, JText) and isinstance(b, JText) and a.obj == b.obj
        return r if op == "=" else not r
    conc = is_concrete(a) and is_concrete(b)
    if conc:
        ta, tb = _rank(a), _rank(b)
        if ta != tb:  # SQLite: INTEGER < TEXT; '=' across storage classes is false
            if op == "=":
                return False
            if op == "!=":
                return True
            a, b = ta, tb
        return _OPS[op](a, b)
    with hx.symbolic():
        return _OPS[op](a, b)


def _rank(x: Any) -> int:
    return 1 if isinstance(x, (int, float, bool)) else 2 if isinstance(x, str) else 3


_OPS = {
    "=": lambda a, b: a == b,
    "!=": lambda a, b: a != b,
    "<": lambda a, b: a < b,
    "<=": lambda a, b: a <= b,
    ">": lambda a, b: a > b,
    ">=": lambda a, b: a >= b,
}


def _sort(matched: list, col: str, desc: bool, nulls_last: bool) -> list:
    """Stable insertion sort with solver-decided comparisons (tables hold <= a few rows)."""
    out: list = []
    for item in matched:
        v = item[0][col]
        pos = len(out)
        for i, other in enumerate(out):
            ov = other[0][col]
            if _before(v, ov, desc, nulls_last):
                pos = i
                break
        out.insert(pos, item)
    return out


def _before(v: Any, ov: Any, desc: bool, nulls_last: bool) -> bool:
    """strictly before (keeps insertion order for ties, like SQLite's rowid order on an index scan)."""
    if v is None or ov is None:
        if v is None and ov is None:
            return False
        if nulls_last:
            return ov is None
        # SQLite default: NULLs first for ASC, last for DESC
        return (v is None) != desc
    return _truth(_compare(">" if desc else "<", v, ov))
