"""Runs the obligations of one property under ``crosshair check``, replays counterexamples,
applies known findings, writes evidence/<id>.json.

Exit codes: 0 held on everything explored; 1 + ``VIOLATION property=<id> replay=<path>`` for a
replayed violation that known_findings.txt does not list; 3 harness error (never believed as a
verdict either way).
"""

from __future__ import annotations

import argparse
import ast
import concurrent.futures as cf
import glob
import hashlib
import importlib
import json
import os
import re
import subprocess
import sys
import tempfile
import time

ROOT = os.path.dirname(os.path.dirname(os.path.abspath(__file__)))
PY = os.path.join(ROOT, ".venv", "bin", "python")
EVID = os.environ.get("VF_EVID") or os.path.join(ROOT, "evidence")
ALT_REPO = os.environ.get("VF_REPO")  # evaluate a scratch worktree instead of /repo (seeded-mutation trials only)
KNOWN = os.path.join(ROOT, "known_findings.txt")

HARNESS_ERROR = 3


def ensure_venv() -> None:
    if not os.path.exists(PY):
        subprocess.check_call([os.path.join(ROOT, "setup.sh")])
    else:
        r = subprocess.run([PY, "-c", "import crosshair, z3, stabilize"], capture_output=True)
        if r.returncode != 0:
            subprocess.check_call([os.path.join(ROOT, "setup.sh")])


def load_known() -> tuple[dict[str, tuple[str, str]], list[str]]:
    """known: key -> (property, text).  fixed lines are returned for the record only."""
    known: dict[str, tuple[str, str]] = {}
    fixed: list[str] = []
    if os.path.exists(KNOWN):
        for line in open(KNOWN):
            line = line.strip()
            if not line or line.startswith("#"):
                continue
            if line.startswith("known:"):
                m = re.match(r"known:\s+property=(\S+)\s+key=(\S+)\s*(.*)", line)
                if m:
                    known[m.group(2)] = (m.group(1), m.group(3))
            elif line.startswith("fixed:"):
                fixed.append(line)
    return known, fixed


def modules_for(pid: str) -> list[str]:
    out = []
    for p in sorted(glob.glob(os.path.join(ROOT, "harness", pid + "_*.py"))):
        out.append("harness." + os.path.basename(p)[:-3])
    return out


def child_env(stats: str | None = None, replay: bool = False) -> dict[str, str]:
    env = dict(os.environ)
    env["PYTHONPATH"] = ROOT + ((":" + os.path.join(ALT_REPO, "src")) if ALT_REPO else "")
    env["PYTHONHASHSEED"] = env.get("VF_HASHSEED", "0")
    env["TZ"] = "UTC"
    env.pop("VF_STATS", None)
    env.pop("VF_REPLAY", None)
    if stats:
        env["VF_STATS"] = stats
    if replay:
        env["VF_REPLAY"] = "1"
    return env


def plan_of(modname: str) -> list[dict]:
    code = (
        "import json,importlib; m=importlib.import_module(%r); "
        "print('PLAN='+json.dumps([list(p) for p in m.PLAN])); "
        "print('META='+json.dumps(getattr(m,'META',{})))" % modname
    )
    r = subprocess.run([PY, "-c", code], capture_output=True, text=True, env=child_env(), cwd=ROOT)
    if r.returncode != 0:
        raise RuntimeError("cannot import %s:\n%s" % (modname, r.stderr[-3000:]))
    plan = meta = None
    for line in r.stdout.splitlines():
        if line.startswith("PLAN="):
            plan = json.loads(line[5:])
        if line.startswith("META="):
            meta = json.loads(line[5:])
    if plan is None:
        raise RuntimeError("no PLAN in " + modname)
    return [
        {"module": modname, "fn": p[0], "tier": p[1], "timeout": min(float(p[2]), _BUDGET_CAP), "meta": meta or {}, "opts": (p[3] if len(p) > 3 else {})}
        for p in plan
    ]


# VF_BUDGET_CAP=<seconds>: smoke run - every obligation gets at most this budget (verdicts are then mostly "explored, not exhausted")
_BUDGET_CAP = float(os.environ.get("VF_BUDGET_CAP") or 10 ** 9)
_VERDICT = re.compile(r"^(?P<file>[^:]+):(?P<line>\d+): (?P<kind>error|info|warning): (?P<msg>.*)$")


def run_obligation(ob: dict) -> dict:
    """One ``crosshair check`` process for one harness function."""
    fd, stats = tempfile.mkstemp(prefix="vfstats_", suffix=".json")
    os.close(fd)
    target = "%s.%s" % (ob["module"], ob["fn"])
    cmd = [
        PY, "-m", "crosshair", "check", target,
        "--report_all",
        "--per_condition_timeout", str(ob["timeout"]),
        "--per_path_timeout", str(ob["opts"].get("per_path_timeout", 120)),
        "--unblock", "EVERYTHING",
    ]
    t0 = time.time()
    try:
        r = subprocess.run(cmd, capture_output=True, text=True, env=child_env(stats), cwd=ROOT,
                           timeout=ob["timeout"] * 2 + 120)
        out, err, rc = r.stdout, r.stderr, r.returncode
    except subprocess.TimeoutExpired as e:
        out = (e.stdout or b"").decode() if isinstance(e.stdout, bytes) else (e.stdout or "")
        err = "WALL TIMEOUT"
        rc = -9
    wall = time.time() - t0
    st = {}
    try:
        st = json.load(open(stats))
    except Exception:
        pass
    try:
        os.unlink(stats)
    except OSError:
        pass
    res = {"target": target, "fn": ob["fn"], "module": ob["module"], "wall": wall, "stats": st, "rc": rc,
           "verdict": "harness_error", "detail": "", "cex": None, "timeout": ob["timeout"]}
    lines = [ln for ln in out.splitlines() if ln.strip()]
    verdicts = []
    for ln in lines:
        m = _VERDICT.match(ln)
        if m:
            verdicts.append((m.group("kind"), m.group("msg")))
    if not verdicts:
        if err == "WALL TIMEOUT" and int(st.get("paths", 0) or 0) >= 1 and int(st.get("reached", 0) or 0) >= 1:
            # the process was stopped at the wall-clock limit (2 x budget + 120 s) before CrossHair's own budget check
            # fired - a machine under load; no counterexample on the paths explored so far: explored, not exhausted
            res["verdict"] = "not_exhausted"
            res["detail"] = "Not confirmed. (wall-clock limit reached, %s paths explored, no counterexample)" % st.get("paths")
            return res
        res["detail"] = "no verdict line; rc=%s stdout=%r stderr=%r" % (rc, out[-1500:], err[-2500:])
        return res
    for kind, msg in verdicts:
        if kind == "error":
            core = re.sub(r"\s\(which returns .*\)$", "", msg)
            m = re.search(r"when calling (\w+)\((.*)\)$", core)
            if m:
                res["verdict"] = "counterexample"
                res["cex"] = {"fn": m.group(1), "args": m.group(2), "msg": msg}
                res["detail"] = msg
                return res
            res["detail"] = msg
            return res
    msgs = " | ".join(m for _, m in verdicts)
    res["detail"] = msgs
    if "Confirmed over all paths" in msgs:
        res["verdict"] = "confirmed"
    elif "Not confirmed" in msgs:
        res["verdict"] = "not_exhausted"
    elif "Unable to meet precondition" in msgs:
        res["verdict"] = "harness_error"
        res["detail"] = "Unable to meet precondition (vacuous or every path aborted): " + msgs
    else:
        res["verdict"] = "harness_error"
    return res


def parse_args_text(text: str):
    def _cap(*a, **k):
        return a, k

    return eval("_cap(" + text + ")", {"_cap": _cap, "True": True, "False": False, "None": None})


def replay(module: str, fn: str, args_text: str) -> dict:
    code = (
        "import json,sys,importlib,traceback\n"
        "from vf import hx\n"
        "m=importlib.import_module(%r)\n"
        "def _cap(*a,**k): return a,k\n"
        "a,k=eval('_cap('+%r+')')\n"
        "out={'ok':None,'exc':None}\n"
        "try:\n"
        "    out['ok']=bool(getattr(m,%r)(*a,**k))\n"
        "except Exception as e:\n"
        "    out['exc']=type(e).__name__+': '+str(e)[:500]; out['tb']=traceback.format_exc()[-1500:]\n"
        "out['key']=hx.LAST_FAIL.get('key'); out['detail']=hx.LAST_FAIL.get('detail')\n"
        "print('REPLAY='+json.dumps(out,default=str))\n" % (module, args_text, fn)
    )
    r = subprocess.run([PY, "-c", code], capture_output=True, text=True, env=child_env(replay=True), cwd=ROOT, timeout=900)
    for line in r.stdout.splitlines():
        if line.startswith("REPLAY="):
            return json.loads(line[7:])
    return {"ok": None, "exc": None, "infra": "replay process failed: " + r.stderr[-2000:], "key": None, "detail": None}


def sha_of(path: str) -> str:
    try:
        return hashlib.sha256(open(path, "rb").read()).hexdigest()[:16]
    except OSError:
        return "missing"


def main(argv: list[str] | None = None) -> int:
    ap = argparse.ArgumentParser()
    ap.add_argument("property")
    ap.add_argument("--tier", default=os.environ.get("VERIF_TIER", "quick"), choices=["quick", "thorough"])
    ap.add_argument("--replay", default=None)
    ap.add_argument("--jobs", type=int, default=int(os.environ.get("VF_JOBS", "16")))
    ap.add_argument("--only", default=None, help="regex on obligation function names")
    a = ap.parse_args(argv)
    pid = a.property
    seed = int(os.environ.get("VERIF_SEED", "0") or 0)
    ensure_venv()
    os.makedirs(os.path.join(EVID, "replay"), exist_ok=True)

    if a.replay:
        rp = json.load(open(a.replay))
        out = replay(rp["module"], rp["fn"], rp["args"])
        print(json.dumps(out, indent=1, default=str))
        if out.get("ok") is False or out.get("exc"):
            print("VIOLATION property=%s replay=%s" % (pid, a.replay))
            return 1
        return 0

    t0 = time.time()
    known, fixed = load_known()
    mods = modules_for(pid)
    if not mods:
        print("no harness for", pid)
        return HARNESS_ERROR
    obligations: list[dict] = []
    for m in mods:
        for ob in plan_of(m):
            if ob["tier"] == "quick" or a.tier == "thorough":
                if a.only and not re.search(a.only, ob["fn"]):
                    continue
                obligations.append(ob)
    # SymDB fidelity is checked, not assumed: differential validation against sqlite3 first
    uses_symdb = any("SymDB" in " ".join(ob["meta"].get("stubs", [])) for ob in obligations)
    validated_shapes: set[str] = set()
    symdb_broken = False
    if uses_symdb:
        # per-run shapes file: checks of several properties (or of a scratch worktree) may run at the same time
        fd, shapes_path = tempfile.mkstemp(prefix="vfshapes_", suffix=".json")
        os.close(fd)
        venv = child_env()
        venv["VF_SHAPES"] = shapes_path
        r = subprocess.run([PY, "-m", "vf.validate_symdb"], capture_output=True, text=True, env=venv, cwd=ROOT, timeout=1200)
        print(r.stdout.strip().splitlines()[-1] if r.stdout.strip() else "validate_symdb: no output")
        if r.returncode != 0:
            print(r.stdout[-3000:])
            print("HARNESS-ERROR validate_symdb: SymDB disagrees with sqlite3 (or could not run):", r.stderr[-1500:])
            # fail closed for everything that runs over SymDB, but still run the obligations that use the real SQLite
            symdb_broken = True
            obligations = [ob for ob in obligations if "SymDB" not in " ".join(ob["meta"].get("stubs", []))]
            if not obligations:
                return HARNESS_ERROR
        try:
            validated_shapes = set(json.load(open(shapes_path)))
        except Exception:
            validated_shapes = set()
        try:
            os.unlink(shapes_path)
        except OSError:
            pass
    # longest first
    obligations.sort(key=lambda o: -o["timeout"])
    results: list[dict] = []
    with cf.ThreadPoolExecutor(max_workers=a.jobs) as ex:
        for res in ex.map(run_obligation, obligations):
            results.append(res)
            print("[%s] %-40s %-14s paths=%-6s reached=%-6s %.1fs %s" % (
                pid, res["fn"], res["verdict"], res["stats"].get("paths", "?"), res["stats"].get("reached", "?"),
                res["wall"], res["detail"][:160] if res["verdict"] not in ("confirmed",) else ""), flush=True)

    violations: list[dict] = []
    harness_errors: list[dict] = []
    known_hits: dict[str, int] = {}
    unexhausted: list[str] = []
    for res in results:
        unknown_shapes = [sh for sh in (res["stats"].get("extra", {}).get("shapes") or []) if sh not in validated_shapes]
        if uses_symdb and unknown_shapes and res["verdict"] in ("confirmed", "not_exhausted"):
            res["verdict"] = "harness_error"
            res["detail"] = "SymDB does not cover statement shape(s) seen in this harness (not validated against sqlite3): " + "; ".join(unknown_shapes[:3])
            harness_errors.append(res)
            continue
        for k, n in (res["stats"].get("extra", {}).get("known_hits", {}) or {}).items():
            known_hits[k] = known_hits.get(k, 0) + n
        if res["verdict"] == "confirmed":
            if res["stats"].get("paths", 0) and not res["stats"].get("reached", 0) and not res["stats"].get("extra", {}).get("known_hits"):
                res["verdict"] = "harness_error"
                res["detail"] = "vacuous: no explored path reached the property's interesting branch"
                harness_errors.append(res)
        elif res["verdict"] == "not_exhausted":
            unexhausted.append(res["fn"])
        elif res["verdict"] == "counterexample":
            rp = replay(res["module"], res["cex"]["fn"], res["cex"]["args"])
            res["replay"] = rp
            if (rp.get("exc") or "").startswith(("HarnessError", "UnsupportedSQL")):
                res["verdict"] = "harness_error"
                res["detail"] = "harness raised: " + str(rp.get("exc"))
                harness_errors.append(res)
            elif rp.get("ok") is False or (rp.get("exc") and rp.get("ok") is None):
                key = rp.get("key") or ("%s/%s/exception:%s" % (pid, res["fn"], (rp.get("exc") or "").split(":")[0]))
                res["key"] = key
                if key in known:
                    known_hits[key] = known_hits.get(key, 0) + 1
                    # a known finding stopped this obligation's exploration early
                    unexhausted.append(res["fn"] + " (stopped at known finding)")
                else:
                    violations.append(res)
            else:
                res["verdict"] = "harness_error"
                res["detail"] = "counterexample did not reproduce on replay: " + json.dumps(rp, default=str)[:600] + " | under tracing: " + json.dumps(res["stats"].get("extra", {}).get("last_fail"), default=str)[:900]
                harness_errors.append(res)
        else:
            harness_errors.append(res)

    # ------------------------------------------------------------------ evidence
    paths = sum(int(r["stats"].get("paths", 0) or 0) for r in results)
    keys: set[str] = set()
    samples = []
    for r in results:
        for k in (r["stats"].get("keys") or {}):
            keys.add(r["fn"] + ":" + k)
        for s in (r["stats"].get("samples") or [])[:2]:
            if len(samples) < 12:
                samples.append({"obligation": r["fn"], "case": s})
    discharged = sum(1 for r in results if r["verdict"] == "confirmed")
    metas = {}
    for ob in obligations:
        metas.update({ob["module"]: ob["meta"]})
    functions = []
    stubs_used: list[str] = []
    bounds: list[str] = []
    assumptions: list[str] = []
    for m, meta in metas.items():
        for f in meta.get("functions", []):
            path = f.split(":")[0]
            functions.append({"function": f, "sha256_16": sha_of(os.path.join("/repo", path))})
        stubs_used += meta.get("stubs", [])
        bounds += meta.get("bounds", [])
        assumptions += meta.get("assumptions", [])
    solver_time = sum(float(r["stats"].get("wall", 0) or 0) for r in results)
    ev = {
        "property_id": pid,
        "tier": a.tier,
        "seed": seed,
        "level": "other",
        "coverage": {
            "explanation": (
                "Bounded symbolic execution of the real code with CrossHair 0.0.110 on z3: each obligation is a "
                "PEP-316 harness whose int/bool arguments are symbolic; 'confirmed' = CrossHair reported "
                "'Confirmed over all paths' (holds for every argument value within the stated pre-conditions), "
                "'not_exhausted' = no counterexample on the paths explored within the time budget (not a proof). "
                "evaluations = solver paths executed (counted inside the harness process), distinct_nontrivial = "
                "distinct cases on which the property's interesting branch was really reached."
            ),
            "obligations": len(results),
            "discharged": discharged,
            "evaluations": paths,
            "distinct_nontrivial": len(keys),
            "rule": "one evaluation = one path of CrossHair's search tree through the harness (a distinct class of argument values); "
                    "non-trivial = the harness called P.reached(key) on that path; distinct by key",
            "samples": samples or [{"note": "no path reached the interesting branch"}],
            "exhaustive": bool(results) and discharged == len(results),
            "unexhausted": unexhausted,
            "per_obligation": [
                {"fn": r["fn"], "verdict": r["verdict"], "paths": r["stats"].get("paths"), "reached": r["stats"].get("reached"),
                 "wall_s": round(r["wall"], 1), "budget_s": r["timeout"], "detail": (r["detail"][:300] if r["verdict"] != "confirmed" else "")}
                for r in results
            ],
            "functions_encoded": functions,
            "bounds": sorted(set(bounds)),
            "stubs": sorted(set(stubs_used)),
            "solver": "z3 %s via crosshair-tool 0.0.110" % _z3_version(),
            "solver_time_s": round(solver_time, 1),
            "known_findings_hit": known_hits,
            "checker_cmd": "./check %s --tier %s" % (pid, a.tier),
        },
        "assumptions": sorted(set(assumptions)),
        "wall_s": round(time.time() - t0, 1),
        "violations": len(violations),
    }
    os.makedirs(EVID, exist_ok=True)
    with open(os.path.join(EVID, pid + ".json"), "w") as f:
        json.dump(ev, f, indent=1, default=str)

    # ------------------------------------------------------------------ report
    rc = 0
    for key, n in sorted(known_hits.items()):
        if key in known and known[key][0] == pid or key in known:
            print("KNOWN-FINDING: property=%s %s [key=%s, hit on %d path(s)]" % (known[key][0], known[key][1], key, n))
    for i, res in enumerate(violations):
        rpath = os.path.join(EVID, "replay", "%s-%d.json" % (pid, i))
        with open(rpath, "w") as f:
            json.dump({"property": pid, "module": res["module"], "fn": res["cex"]["fn"], "args": res["cex"]["args"],
                       "key": res.get("key"), "observed": res.get("replay")}, f, indent=1, default=str)
        print("VIOLATION property=%s replay=%s" % (pid, rpath))
        print("  %s(%s): key=%s detail=%s" % (res["cex"]["fn"], res["cex"]["args"], res.get("key"),
                                             json.dumps(res.get("replay", {}).get("detail"), default=str)[:700]))
        rc = 1
    if harness_errors:
        for res in harness_errors:
            print("HARNESS-ERROR %s: %s" % (res["fn"], res["detail"][:1500]))
        if rc == 0:
            rc = HARNESS_ERROR
    if symdb_broken and rc == 0:
        rc = HARNESS_ERROR  # the SymDB obligations could not be run at all
    print("[%s] tier=%s obligations=%d confirmed=%d not_exhausted=%d violations=%d harness_errors=%d paths=%d wall=%.0fs" % (
        pid, a.tier, len(results), discharged, len(unexhausted), len(violations), len(harness_errors), paths, time.time() - t0))
    return rc


def _z3_version() -> str:
    try:
        r = subprocess.run([PY, "-c", "import z3;print(z3.get_version_string())"], capture_output=True, text=True)
        return r.stdout.strip()
    except Exception:
        return "?"


if __name__ == "__main__":
    sys.exit(main())
