"""Determinism layer: one virtual clock shared by Python and SQL, reproducible ids.

Everything here is monkey-patching of the already imported ``stabilize.*`` modules done by the
harness process; nothing in /repo is edited.  Every stub is part of every claim (DESIGN 2.3).

The clock is an integer number of milliseconds since the Unix epoch.  It is concrete in the
native (S1) substrate; the S2 substrate uses its own symbolic instants (see vf/symdb.py).
"""

from __future__ import annotations

import datetime as _rdt
import importlib
import pkgutil
import sys
import types
import uuid as _ruuid

_REAL_DATETIME = _rdt.datetime
UTC = _rdt.timezone.utc
EPOCH0_MS = 1_700_000_000_000  # 2023-11-14T22:13:20Z


class VClock:
    """Integer millisecond clock.  ``now()`` ticks by one ms so that timestamps are distinct and
    ordered like the calls that produced them (a wall clock is non-decreasing; strictness is a
    convenience that makes runs reproducible, nothing in the properties depends on it)."""

    def __init__(self) -> None:
        self.ms = EPOCH0_MS
        self.tick = 1

    def reset(self) -> None:
        self.ms = EPOCH0_MS

    def now_ms(self) -> int:
        self.ms += self.tick
        return self.ms

    def peek_ms(self) -> int:
        return self.ms

    def advance(self, ms: int) -> None:
        if ms > 0:
            self.ms += int(ms)


CLOCK = VClock()


# ---------------------------------------------------------------- time module stub
class _FakeTime(types.ModuleType):
    def __init__(self) -> None:
        super().__init__("time")
        import time as _t

        self._real = _t

    def time(self) -> float:
        return CLOCK.now_ms() / 1000.0

    def time_ns(self) -> int:
        return CLOCK.now_ms() * 1_000_000

    def monotonic(self) -> float:
        return CLOCK.now_ms() / 1000.0

    def perf_counter(self) -> float:
        return CLOCK.now_ms() / 1000.0

    def monotonic_ns(self) -> int:
        return CLOCK.now_ms() * 1_000_000

    def sleep(self, seconds: float) -> None:
        CLOCK.advance(int(float(seconds) * 1000))

    def __getattr__(self, name: str):  # strftime, gmtime, ...
        return getattr(self._real, name)


FAKE_TIME = _FakeTime()


# ---------------------------------------------------------------- datetime class stub
class _DTMeta(type(_REAL_DATETIME)):
    def __instancecheck__(cls, inst) -> bool:  # real datetimes created before patching count too
        return isinstance(inst, _REAL_DATETIME)

    def __subclasscheck__(cls, sub) -> bool:  # CrossHair: isinstance(x, T) == issubclass(type(x), T)
        return sub is _REAL_DATETIME or type.__subclasscheck__(cls, sub) or (getattr(sub, "__name__", "") == "datetime" and hasattr(sub, "isoformat"))


class FakeDateTime(_REAL_DATETIME, metaclass=_DTMeta):
    @classmethod
    def now(cls, tz=None):
        ms = CLOCK.now_ms()
        base = _REAL_DATETIME.fromtimestamp(ms // 1000, UTC).replace(microsecond=(ms % 1000) * 1000)
        if tz is None:
            return base.replace(tzinfo=None)
        return base.astimezone(tz)

    @classmethod
    def utcnow(cls):
        return cls.now(None)


def ms_of_iso(text: str) -> int:
    """Milliseconds since epoch of an ISO-8601 text as written by the engine (naive = UTC)."""
    d = _REAL_DATETIME.fromisoformat(text)
    if d.tzinfo is None:
        d = d.replace(tzinfo=UTC)
    return int(d.timestamp()) * 1000 + d.microsecond // 1000


def iso_of_ms(ms: int) -> str:
    base = _REAL_DATETIME.fromtimestamp(ms // 1000, UTC).replace(microsecond=(ms % 1000) * 1000)
    return base.isoformat()


def sql_datetime(*args):
    """Replacement for SQLite's datetime(): same text format ('YYYY-MM-DD HH:MM:SS', seconds
    granularity, UTC), but 'now' is the virtual clock.  The 'utc' modifier is the identity
    (assumes the host runs in UTC, DESIGN section 6 O1)."""
    if not args:
        return None
    v = args[0]
    if v is None:
        return None
    if isinstance(v, str) and v.strip().lower() == "now":
        ms = CLOCK.peek_ms()
        d = _REAL_DATETIME.fromtimestamp(ms // 1000, UTC)
    else:
        try:
            d = _REAL_DATETIME.fromisoformat(str(v).replace("Z", "+00:00"))
        except ValueError:
            return None
        if d.tzinfo is not None:
            d = d.astimezone(UTC)
    for mod in args[1:]:
        m = str(mod).strip().lower()
        if m in ("utc", "localtime"):
            continue
        # '+N seconds' / '-N hours' style modifiers
        parts = m.split()
        if len(parts) == 2:
            try:
                n = float(parts[0])
            except ValueError:
                return None
            unit = parts[1].rstrip("s")
            secs = {"second": 1, "minute": 60, "hour": 3600, "day": 86400}.get(unit)
            if secs is None:
                return None
            d = d + _rdt.timedelta(seconds=n * secs)
        else:
            return None
    return d.strftime("%Y-%m-%d %H:%M:%S")


# ---------------------------------------------------------------- ids
class _Ids:
    def __init__(self) -> None:
        self.n = 0

    def reset(self) -> None:
        self.n = 0

    def next(self) -> int:
        self.n += 1
        return self.n


IDS = _Ids()

_B32 = "0123456789ABCDEFGHJKMNPQRSTVWXYZ"


class FakeULID:
    """Fresh, unique, increasing with creation order (the documented ULID contract)."""

    def __init__(self, *a, **k) -> None:
        self._n = IDS.next()

    def __str__(self) -> str:
        n = self._n
        out = []
        for _ in range(10):
            out.append(_B32[n % 32])
            n //= 32
        return "01VERIF000000000" + "".join(reversed(out))

    def __repr__(self) -> str:
        return f"ULID({self})"

    @property
    def hex(self) -> str:
        return "%032x" % self._n


class _FakeUUIDModule(types.ModuleType):
    def __init__(self) -> None:
        super().__init__("uuid")

    def uuid4(self):
        return _ruuid.UUID(int=(0x5AB1 << 100) | IDS.next())

    def uuid1(self, *a, **k):
        return self.uuid4()

    def __getattr__(self, name: str):
        return getattr(_ruuid, name)


FAKE_UUID = _FakeUUIDModule()


class _FakeRandom:
    def uniform(self, a: float, b: float) -> float:
        return (a + b) / 2.0

    def random(self) -> float:
        return 0.5

    def __getattr__(self, name):
        import random

        return getattr(random, name)


# ---------------------------------------------------------------- installation
_INSTALLED = False
_SKIP_PREFIXES = (
    "stabilize.cli",
    "stabilize.monitor",
    "stabilize.llm",
    "stabilize.persistence.postgres",
    "stabilize.queue.postgres",
    "stabilize.events.store.postgres",
    "stabilize.tasks.docker",
    "stabilize.tasks.ssh",
    "stabilize.tasks.http",
    "stabilize.tasks.highway",
    "stabilize.tasks.shell",
    "stabilize.tasks.python",
)


def import_all_stabilize() -> list[str]:
    """Import every stabilize sub-module (several are imported lazily by the engine; patching
    must see them all)."""
    import stabilize

    names = []
    for m in pkgutil.walk_packages(stabilize.__path__, "stabilize."):
        if m.name.startswith(_SKIP_PREFIXES):
            continue
        try:
            importlib.import_module(m.name)
            names.append(m.name)
        except Exception:  # optional deps (psycopg, docker, ...)
            pass
    return names


def install() -> None:
    """Patch clock/ids into every imported stabilize module.  Idempotent."""
    global _INSTALLED
    if _INSTALLED:
        return
    import_all_stabilize()
    import time as _real_time

    for name, mod in list(sys.modules.items()):
        if mod is None or not name.startswith("stabilize"):
            continue
        d = mod.__dict__
        if d.get("time") is _real_time:
            d["time"] = FAKE_TIME
        if d.get("datetime") is _REAL_DATETIME:
            d["datetime"] = FakeDateTime
        if d.get("uuid") is _ruuid:
            d["uuid"] = FAKE_UUID
        if "ULID" in d and getattr(d["ULID"], "__module__", "").startswith("ulid"):
            d["ULID"] = FakeULID
    import ulid

    ulid.ULID = FakeULID
    try:
        import resilient_circuit.backoff as _b
        import resilient_circuit.retry as _r

        _r.sleep = FAKE_TIME.sleep
        _b.random = _FakeRandom()
    except Exception:
        pass
    # Message.created_at default_factory was bound to the real datetime.now at class creation;
    # it is metadata that never reaches durable state except as text; leave it.
    _quiet_logging()
    _INSTALLED = True


def _quiet_logging() -> None:
    import logging

    logging.disable(logging.CRITICAL)


def reset() -> None:
    CLOCK.reset()
    IDS.reset()
