"""Verification framework for rodmena-limited/stabilize (solver-based checking of the real code)."""
