"""Differential validation of SymDB against sqlite3 (fidelity is checked, not assumed).

The same engine scenarios (the real store, queue, handlers and processor) are driven step by step
on SymDB and on the real sqlite3 in two child processes; after every processed message the contents
of the state tables are compared.  Also records the statement shapes SymDB has been validated on;
an S2 harness that meets a shape outside this set fails closed.

  python -m vf.validate_symdb            -> exit 0 if every step of every scenario agrees
"""

from __future__ import annotations

import json
import os
import subprocess
import sys
from typing import Any

ROOT = os.path.dirname(os.path.dirname(os.path.abspath(__file__)))
SCENARIOS = ["chain2", "diamond", "diamond_fail", "tasks3", "selfloop2", "backjump1", "fwdjump", "suspend_signal", "mutex", "choice", "disc2", "transient2ctx", "poll2", "cancel", "dlq", "recovery"]


def _tasks():
    from stabilize import Task, TaskResult
    from stabilize.errors import TransientError
    from stabilize.models.status import WorkflowStatus

    class T(Task):
        def execute(self, stage):
            tm = next((t for t in stage.tasks if t.status == WorkflowStatus.RUNNING), None)
            beh = (stage.context.get("vf") or {}).get(tm.name if tm else "?") or {"kind": "ok"}
            kind = beh.get("kind", "ok")
            it = int(stage.context.get("_jump_count", 0) or 0)
            out = {"k": stage.ref_id, "l": [stage.ref_id], "o_" + stage.ref_id: it}
            if kind == "ok":
                return TaskResult.success(outputs=out)
            if kind == "terminal":
                return TaskResult.terminal("x")
            if kind == "poll":
                p = int(stage.context.get("polls", 0))
                return TaskResult.running(context={"polls": p + 1}) if p < int(beh.get("n", 2)) else TaskResult.success(outputs=out)
            if kind == "transient":
                d = int(stage.context.get("progress", 0))
                if d < int(beh.get("n", 1)):
                    raise TransientError("t", context_update={"progress": d + 1})
                return TaskResult.success(outputs=out)
            if kind == "jump":
                if it < int(beh.get("times", 1)):
                    return TaskResult.jump_to(beh["target"], context={"j": it + 1}, outputs=out)
                return TaskResult.success(outputs=out)
            if kind == "suspend":
                if stage.context.get("_signal_name"):
                    return TaskResult.success(outputs={**out, "sig": stage.context.get("_signal_data")})
                return TaskResult.suspend()
            raise AssertionError(kind)

    return T


def _norm_rows(rows: list[dict[str, Any]], cols: list[str]) -> list[list[Any]]:
    def nv(v: Any) -> Any:
        if v is None or isinstance(v, (int, str, bool, float)):
            return v
        if type(v).__name__ == "JText":
            return json.dumps(v.obj, sort_keys=True, default=str)
        return "<%s>" % type(v).__name__

    out = []
    for r in rows:
        row = []
        for c in cols:
            v = r[c]
            if c in ("context", "outputs", "payload") and isinstance(v, str):
                try:
                    d = json.loads(v)
                    d.pop("created_at", None) if isinstance(d, dict) else None
                    v = json.dumps(d, sort_keys=True)
                except Exception:
                    pass
            elif c in ("context", "outputs", "payload") and type(v).__name__ == "JText":
                d = v.obj
                if isinstance(d, dict):
                    d = {k: x for k, x in d.items() if k != "created_at"}
                v = json.dumps(d, sort_keys=True, default=str)
            row.append(nv(v))
        out.append(row)
    return sorted(out, key=lambda x: json.dumps(x, default=str))


VIEW = {
    "pipeline_executions": ["id", "status", "is_canceled"],
    "stage_executions": ["id", "ref_id", "status", "version", "context", "outputs", "parent_stage_id"],
    "task_executions": ["id", "name", "status", "version"],
    "queue_messages": ["id", "message_type", "payload", "attempts", "max_attempts", "version"],
    "queue_messages_dlq": ["original_id", "message_type", "attempts"],
    "processed_messages": ["message_id", "handler_type"],
    "stage_claims": ["execution_id", "claim_key", "stage_id"],
}


def run_backend(backend: str) -> dict[str, Any]:
    sys.path.insert(0, ROOT)
    from vf import stubs

    stubs.install()
    from datetime import timedelta

    from stabilize import Orchestrator, QueueProcessor, TaskRegistry
    from stabilize.queue.processor.config import QueueProcessorConfig

    out: dict[str, Any] = {}
    shapes: set[str] = set()
    for sc in SCENARIOS:
        if backend == "symdb":
            from vf import symdb, world2

            w2 = world2.SWorld(name=sc)
            store, queue, db = w2.store, w2.queue, w2.db

            def rows(t: str) -> list[dict[str, Any]]:
                return [dict(r) for r in db.tables.get(t, [])]

            def now_ms() -> int:
                return symdb.CLOCK.now

            def advance(ms: int) -> None:
                symdb.CLOCK.now += ms

            def tms(v: Any) -> int | None:
                return None if v is None else v.ms

            closer = w2.close
        else:
            from vf import native

            wn = native.World()
            store, queue = wn.store, wn.queue

            def rows(t: str) -> list[dict[str, Any]]:
                return [dict(r) for r in wn.q("SELECT * FROM %s" % t)]

            def now_ms() -> int:
                return stubs.CLOCK.peek_ms()

            def advance(ms: int) -> None:
                stubs.CLOCK.advance(ms)

            def tms(v: Any) -> int | None:
                return None if v is None else stubs.ms_of_iso(v)

            closer = wn.close
        try:
            from vf import native as nv  # workload builders only (pure model construction)

            os.environ["STABILIZE_MAX_STAGE_WAIT_RETRIES"] = "4"
            from stabilize.resilience.config import reset_handler_config

            reset_handler_config()
            reg = TaskRegistry()
            reg.register("vtask", _tasks())
            cfg = QueueProcessorConfig(enable_lock_heartbeat=False)
            proc = QueueProcessor(queue, config=cfg, store=store, task_registry=reg)
            orch = Orchestrator(queue, store)
            base = {"suspend_signal": "suspend", "cancel": "diamond", "dlq": "chain2", "recovery": "diamond"}.get(sc, sc)
            wf = nv.WORKLOADS[base]()
            store.store(wf)
            orch.start(wf)
            trace = []
            step = 0
            signalled = False
            while step < 400:
                q = rows("queue_messages")
                live = [r for r in q if r["attempts"] < 10]
                if not live:
                    if sc == "suspend_signal" and not signalled:
                        from stabilize.hitl import send_signal

                        sid = next(s.id for s in wf.stages if s.ref_id == "w")
                        send_signal(queue, wf.id, sid, "go", {"v": 3})
                        signalled = True
                        continue
                    break
                t = min(max(tms(r["deliver_at"]) or 0, (tms(r["locked_until"]) or 0) + 1000 if r["locked_until"] is not None else 0) for r in live)
                target = (t // 1000 + 1) * 1000
                if target > now_ms():
                    advance(target - now_ms())
                if sc == "cancel" and step == 9:
                    orch.cancel(store.retrieve(wf.id), "u", "r")
                if sc == "recovery" and step in (7, 15):
                    proc.run_recovery()
                if sc == "dlq" and step == 5:
                    from datetime import timedelta as _td

                    m = queue.poll_one()
                    if m is not None:
                        queue.extend_lock(m, _td(seconds=5))
                        queue.reschedule(m, _td(seconds=0))
                        advance(1000)
                        m2 = queue.poll_one()
                        queue.move_to_dlq((m2 or m).message_id, "test")
                        ent = queue.list_dlq()
                        trace.append(["dlq_size", queue.dlq_size(), queue.size(), len(ent), m2 is not None])
                        if ent:
                            queue.replay_dlq(ent[0]["id"])
                        trace.append(["pending?", queue.has_pending_message_for_task("nope"), store.is_message_processed("1"), len(store.get_processed_message_ids(limit=5) or [])])
                try:
                    proc.process_one()
                except Exception as e:  # rescheduled by the processor
                    trace.append("error:" + type(e).__name__)
                advance(1)
                step += 1
                snap = {t: _norm_rows(rows(t), cols) for t, cols in VIEW.items()}
                trace.append(snap)
            store.cleanup_completed_stage_claims()
            queue.check_and_move_expired()
            trace.append({t: _norm_rows(rows(t), cols) for t, cols in VIEW.items()})
            out[sc] = trace
            if backend == "symdb":
                shapes |= set(db.shapes)
        finally:
            closer()
    out["__shapes__"] = sorted(shapes)
    return out


def main() -> int:
    if len(sys.argv) > 1 and sys.argv[1] in ("symdb", "sqlite"):
        print("TRACE=" + json.dumps(run_backend(sys.argv[1]), default=str))
        return 0
    py = os.path.join(ROOT, ".venv", "bin", "python")
    env = dict(os.environ, PYTHONPATH=ROOT + ((":" + os.path.join(os.environ["VF_REPO"], "src")) if os.environ.get("VF_REPO") else ""), PYTHONHASHSEED="0", TZ="UTC")
    res = {}
    for b in ("symdb", "sqlite"):
        r = subprocess.run([py, "-m", "vf.validate_symdb", b], capture_output=True, text=True, env=env, cwd=ROOT, timeout=900)
        line = next((ln for ln in r.stdout.splitlines() if ln.startswith("TRACE=")), None)
        if line is None:
            print("validate_symdb: backend %s failed:\n%s" % (b, r.stderr[-3000:]))
            return 3
        res[b] = json.loads(line[6:])
    bad = 0
    steps = 0
    for sc in SCENARIOS:
        a, c = res["symdb"][sc], res["sqlite"][sc]
        if len(a) != len(c):
            print("validate_symdb: %s: %d steps on SymDB vs %d on sqlite" % (sc, len(a), len(c)))
            bad += 1
        for i, (x, y) in enumerate(zip(a, c)):
            steps += 1
            if x != y:
                bad += 1
                if isinstance(x, dict) and isinstance(y, dict):
                    for t in x:
                        if x[t] != y.get(t):
                            print("validate_symdb: %s step %d table %s differs:\n  symdb : %s\n  sqlite: %s" % (sc, i, t, json.dumps(x[t])[:600], json.dumps(y.get(t))[:600]))
                            break
                else:
                    print("validate_symdb: %s step %d: %r vs %r" % (sc, i, x, y))
                break
    shapes = res["symdb"]["__shapes__"]
    with open(os.environ.get("VF_SHAPES") or os.path.join(ROOT, "vf", "symdb_shapes.json"), "w") as f:
        json.dump(shapes, f, indent=0)
    print("validate_symdb: %d scenarios, %d steps compared, %d statement shapes, %d disagreements" % (len(SCENARIOS), steps, len(shapes), bad))
    return 0 if bad == 0 else 3


if __name__ == "__main__":
    sys.exit(main())
