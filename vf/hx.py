"""Harness-side helpers: tracing switches, per-path statistics, symbolic decisions.

A harness function is an ordinary Python function with PEP-316 ``pre:``/``post:`` lines.  Run by
``crosshair check`` its int/bool arguments are symbolic and every comparison made on them under
tracing is decided by z3; run by ``vf.replay`` (plain interpreter, concrete arguments) the very
same function is the replay of a counterexample.
"""

from __future__ import annotations

import atexit
import contextlib
import json
import os
import time as _time
from typing import Any, Iterator

try:  # crosshair is present in /verif/.venv; replay also works without it
    from crosshair.tracers import NoTracing, ResumedTracing, is_tracing
except Exception:  # pragma: no cover
    NoTracing = ResumedTracing = None  # type: ignore

    def is_tracing() -> bool:  # type: ignore
        return False


REPLAY = os.environ.get("VF_REPLAY") == "1"
STATS_PATH = os.environ.get("VF_STATS")


def under_crosshair() -> bool:
    try:
        return bool(is_tracing())
    except Exception:
        return False


@contextlib.contextmanager
def native() -> Iterator[None]:
    """Run the body outside CrossHair's tracer (concrete, native speed).  No-op in replay."""
    if NoTracing is not None and under_crosshair():
        with NoTracing():
            yield
    else:
        yield


@contextlib.contextmanager
def symbolic() -> Iterator[None]:
    """Re-enter tracing from inside ``native()`` for an operation on a symbolic value."""
    if ResumedTracing is not None and NoTracing is not None and _in_crosshair_run() and not under_crosshair():
        with ResumedTracing():
            yield
    else:
        yield


_CH_RUN = False


def _in_crosshair_run() -> bool:
    return _CH_RUN


def decide_eq(sym: Any, concrete: int) -> bool:
    """``sym == concrete`` decided by the solver (forks the path tree), returned as a plain bool.
    Callable from native code."""
    with symbolic():
        if sym == concrete:
            return True
        return False


def decide_lt(sym: Any, concrete: int) -> bool:
    with symbolic():
        if sym < concrete:
            return True
        return False


def decide(sym_bool: Any) -> bool:
    with symbolic():
        if sym_bool:
            return True
        return False


def pick(sym: Any, n: int) -> int:
    """Decode a symbolic choice into 0..n-1 with n-1 distinguishing questions; every value
    outside 1..n-1 falls on 0, so equivalent values stay merged in the solver's path tree."""
    for k in range(1, n):
        if decide_eq(sym, k):
            return k
    return 0


# ----------------------------------------------------------------------------- statistics
class Stats:
    def __init__(self) -> None:
        self.paths = 0
        self.reached = 0
        self.keys: dict[str, int] = {}
        self.samples: list[Any] = []
        self.t0 = _time.time()
        self.extra: dict[str, Any] = {}

    def dump(self) -> None:
        if not STATS_PATH:
            return
        try:
            with open(STATS_PATH, "w") as f:
                json.dump(
                    {
                        "paths": self.paths,
                        "reached": self.reached,
                        "distinct": len(self.keys),
                        "keys": dict(list(self.keys.items())[:400]),
                        "samples": self.samples[:6],
                        "wall": _time.time() - self.t0,
                        "extra": self.extra,
                    },
                    f,
                    default=str,
                )
        except Exception:
            pass


STATS = Stats()
atexit.register(STATS.dump)


class Path:
    """One execution of a harness body (= one path of the solver's search tree)."""

    def __init__(self, name: str) -> None:
        self.name = name
        self.fail_key: str | None = None
        self.detail: Any = None

    def __enter__(self) -> "Path":
        global _CH_RUN
        if under_crosshair():
            _CH_RUN = True
        with native():
            STATS.paths += 1
            if STATS.paths <= 3 or STATS.paths % 10 == 0:
                STATS.dump()
        return self

    def __exit__(self, *exc: Any) -> bool:
        return False

    def reached(self, key: Any, sample: Any = None) -> None:
        """The interesting branch really happened on this path; ``key`` identifies the distinct
        non-trivial case (used for distinct_nontrivial in the evidence)."""
        with native():
            STATS.reached += 1
            k = str(key)
            STATS.keys[k] = STATS.keys.get(k, 0) + 1
            if sample is not None and len(STATS.samples) < 6 and STATS.keys[k] == 1:
                STATS.samples.append(sample)

    def fail(self, key: str, detail: Any = None) -> bool:
        """Record why the property is false on this path; returns False for ``return P.fail(..)``.
        A failure whose key is listed in known_findings.txt is counted and the path is treated as
        explored (returns True) so that the search goes on looking for *other* violations; in
        replay mode nothing is suppressed."""
        with native():
            self.fail_key = key
            self.detail = detail
            LAST_FAIL["key"] = key
            LAST_FAIL["detail"] = detail
            STATS.extra["last_fail"] = {"key": key, "detail": repr(detail)[:800]}
            if not REPLAY and key in KNOWN_KEYS:
                kh = STATS.extra.setdefault("known_hits", {})
                kh[key] = kh.get(key, 0) + 1
                return True
        return False


LAST_FAIL: dict[str, Any] = {}


class HarnessError(Exception):
    """A defect of the verification machinery (never a verdict about the code under test)."""


def _load_known() -> set[str]:
    import re

    out: set[str] = set()
    path = os.path.join(os.path.dirname(os.path.dirname(os.path.abspath(__file__))), "known_findings.txt")
    try:
        for line in open(path):
            m = re.match(r"known:\s+property=\S+\s+key=(\S+)", line.strip())
            if m:
                out.add(m.group(1))
    except OSError:
        pass
    return out


KNOWN_KEYS = _load_known()


def quiet_format() -> None:
    """Formatting is not the subject of any lemma (error messages, log lines): make CrossHair's
    format() interception return a placeholder for symbolic numbers instead of *realizing* them,
    which would turn 'for every version' into one path per concrete version.  Implemented by
    swapping the code object of crosshair.libimpl.builtinslib._format (same globals)."""
    try:
        import crosshair.libimpl.builtinslib as bl
    except Exception:  # pragma: no cover
        return
    if getattr(bl, "_vf_quiet_format", False):
        return

    def _format(obj, format_spec=""):  # runs with builtinslib's globals
        with NoTracing():  # noqa: F821
            if isinstance(format_spec, AnySymbolicStr):  # noqa: F821
                format_spec = realize(format_spec)  # noqa: F821
            if format_spec in ("", "s") and isinstance(obj, AnySymbolicStr):  # noqa: F821
                return obj
            if isinstance(obj, CrossHairValue) and not isinstance(obj, AnySymbolicStr):  # noqa: F821
                return "<symbolic>"
            obj = deep_realize(obj)  # noqa: F821
            result = invoke_dunder(obj, "__format__", format_spec)  # noqa: F821
            if result is not _MISSING:  # noqa: F821
                return result
        return format(obj, format_spec)

    need = ("NoTracing", "AnySymbolicStr", "realize", "CrossHairValue", "deep_realize", "invoke_dunder", "_MISSING")
    if all(hasattr(bl, n) for n in need):
        bl._format.__code__ = _format.__code__
        bl._vf_quiet_format = True
