"""C11 - mutex admits one running stage; a deferred choice has exactly one winner (S2 over SymDB).

``AtomicTransaction.acquire_claim``, the claim transaction of ``StartStageHandler._start_if_ready`` for
two sibling stages racing (B nested inside A's read-to-write window), and the retention sweep
``cleanup_completed_stage_claims`` run under CrossHair with solver-chosen owner / status / flags.
"""
from __future__ import annotations

import datetime as _dt
import json

from harness.C04_claim import _msgs, _worker_b
from harness.s2util import ST, row_of, set_cells
from vf import hx, symdb, world2

from stabilize.handlers import StartStageHandler  # noqa: E402
from stabilize.models.stage import StageExecution  # noqa: E402
from stabilize.models.status import WorkflowStatus  # noqa: E402
from stabilize.models.task import TaskExecution  # noqa: E402
from stabilize.models.workflow import Workflow  # noqa: E402
from stabilize.queue.messages import StartStage  # noqa: E402

_CREATED = _dt.datetime(2024, 1, 1)
FINAL = {"SUCCEEDED", "FAILED_CONTINUE", "TERMINAL", "CANCELED", "STOPPED", "SKIPPED"}


def _siblings(w, wf_status: WorkflowStatus = WorkflowStatus.RUNNING, kw_b: dict | None = None, **kw):
    mk = lambda ref, deps, **k: StageExecution(ref_id=ref, name=ref, type="x", requisite_stage_ref_ids=set(deps),  # noqa: E731
                                               tasks=[TaskExecution.create(name="t", implementing_class="x", stage_start=True, stage_end=True)], **k)
    r = mk("r", [], status=WorkflowStatus.SUCCEEDED)
    a = mk("a", ["r"], **kw)
    b = mk("b", ["r"], **(kw if kw_b is None else kw_b))
    wf = Workflow(application="a", name="w", stages=[r, a, b], status=wf_status)
    w.store.store(wf)
    return wf, a, b


def acquire_claim_step(has_row: bool, owner_is_self: bool, owner_status: int, owner_exists: bool, steal: bool) -> bool:
    """
    post: _
    """
    with hx.Path("acquire_claim_step") as P:
        hr, self_owner, oe, st = hx.decide(has_row), hx.decide(owner_is_self), hx.decide(owner_exists), hx.decide(steal)
        ostat = ST[hx.pick(owner_status, 12)]
        w = world2.SWorld(name="claims")
        try:
            wf, a, b = _siblings(w, mutex_key="k")
            owner_id = a.id if self_owner else (b.id if oe else "ghost-stage")
            if hr:
                with hx.native():
                    w.db.tables["stage_claims"].append({"execution_id": wf.id, "claim_key": "mutex:k", "stage_id": owner_id, "claimed_at": symdb.Iso(0)})
            set_cells(w, "stage_executions", b.id, status=ostat.name)
            with w.store.transaction(w.queue) as t:
                got = t.acquire_claim(wf.id, "mutex:k", a.id, steal_if_owner_terminal=st)
            rows = [r for r in w.table("stage_claims") if r["execution_id"] == wf.id and r["claim_key"] == "mutex:k"]
            want = (not hr) or self_owner or (st and ((not oe) or ostat.name in FINAL))
            with hx.native():
                P.reached((hr, self_owner, oe, ostat.name, st, got))
                info = {"row_present": hr, "owner_is_self": self_owner, "owner_exists": oe, "owner_status": ostat.name, "steal": st, "returned": got}
            if bool(got) != bool(want):
                return P.fail("C11/acquire/%s" % ("granted_while_held_by_live_owner" if got else "refused_although_free"), info)
            if len(rows) != 1:
                return P.fail("C11/acquire/claim_rows!=1", {**info, "rows": len(rows)})
            if (rows[0]["stage_id"] == a.id) != bool(got):
                return P.fail("C11/acquire/row_owner_disagrees_with_result", info)
            return True
        finally:
            w.close()


def _start_pair(kind: int, v0, name: str) -> bool:
    """Siblings a, b share a mutex key (kind 0) or a deferred-choice group (kind 1).  Worker B's whole
    StartStage(b) runs between A's read of a and A's first write: both passed the read-then-check
    fast path, only the claim row can serialize them."""
    with hx.Path(name) as P:
        w = world2.SWorld(name="pair")
        try:
            if kind == 2:  # a member of the choice group that also carries a mutex key of its own
                wf, a, b = _siblings(w, kw_b={"deferred_choice_group": "g"}, deferred_choice_group="g", mutex_key="only_a")
            else:
                kw = {"mutex_key": "k"} if kind == 0 else {"deferred_choice_group": "g"}
                wf, a, b = _siblings(w, **kw)
            set_cells(w, "stage_executions", a.id, version=v0)
            sb, qb = _worker_b(w)
            state = {"done": False}

            def pre(conn, st) -> None:
                if not state["done"] and st[0] in ("update", "insert") and st[1 if st[0] == "update" else 2] in ("stage_executions", "stage_claims"):
                    state["done"] = True
                    m = StartStage(execution_id=wf.id, stage_id=b.id, created_at=_CREATED)
                    m.message_id = "912"
                    StartStageHandler(qb, sb).handle(m)

            w.conn().pre_statement = pre
            ma = StartStage(execution_id=wf.id, stage_id=a.id, created_at=_CREATED)
            ma.message_id = "911"
            StartStageHandler(w.queue, w.store).handle(ma)
            w.conn().pre_statement = None
            sa, sbst = row_of(w, "stage_executions", a.id)["status"], row_of(w, "stage_executions", b.id)["status"]
            with hx.native():
                P.reached((kind, sa, sbst))
                info = {"kind": ["mutex", "choice", "choice"][kind], "a_also_has_a_mutex_key": kind == 2, "a": sa, "b": sbst,
                        "requeued_a": len(_msgs(w, "StartStage", a.id)), "cancel_a": len(_msgs(w, "CancelStage", a.id)), "cancel_b": len(_msgs(w, "CancelStage", b.id))}
            running = [s for s in (sa, sbst) if s == "RUNNING"]
            if len(running) > 1:
                return P.fail("C11/pair/%s/both_siblings_running" % info["kind"], info)
            if len(running) == 0:
                return P.fail("C11/pair/%s/nobody_started" % info["kind"], info)
            loser = a.id if sa != "RUNNING" else b.id
            if kind == 0:
                if len(_msgs(w, "StartStage", loser)) < 1:
                    return P.fail("C11/pair/mutex/waiting_stage_not_requeued", info)
            else:
                if len(_msgs(w, "CancelStage", loser)) < 1:
                    return P.fail("C11/pair/choice/loser_not_canceled", info)
            return True
        finally:
            w.close()


def mutex_pair(v0: int) -> bool:
    """
    pre: 0 <= v0 <= 1000
    post: _
    """
    return _start_pair(0, v0, "mutex_pair")


def choice_pair(v0: int) -> bool:
    """
    pre: 0 <= v0 <= 1000
    post: _
    """
    return _start_pair(1, v0, "choice_pair")


def choice_pair_with_mutex(v0: int) -> bool:
    """
    pre: 0 <= v0 <= 1000
    post: _
    """
    return _start_pair(2, v0, "choice_pair_with_mutex")


def claims_retention(wf_status: int, other_status: int) -> bool:
    """
    post: _
    """
    with hx.Path("claims_retention") as P:
        ws = ST[hx.pick(wf_status, 12)]
        os_ = ST[hx.pick(other_status, 12)]
        w = world2.SWorld(name="ret")
        try:
            wf, a, b = _siblings(w, wf_status=ws, mutex_key="k")
            mk = StageExecution(ref_id="q", name="q", type="x")
            wf2 = Workflow(application="a", name="w2", stages=[mk], status=os_)
            w.store.store(wf2)
            with hx.native():
                w.db.tables["stage_claims"].append({"execution_id": wf.id, "claim_key": "mutex:k", "stage_id": a.id, "claimed_at": symdb.Iso(0)})
                w.db.tables["stage_claims"].append({"execution_id": wf2.id, "claim_key": "choice:g", "stage_id": mk.id, "claimed_at": symdb.Iso(0)})
            n = w.store.cleanup_completed_stage_claims()
            left = {r["execution_id"] for r in w.table("stage_claims")}
            with hx.native():
                P.reached((ws.name, os_.name, n))
            for wid, st in ((wf.id, ws), (wf2.id, os_)):
                gone = wid not in left
                if gone and st.name not in FINAL:
                    return P.fail("C11/retention/claim_of_live_execution_swept", {"status": st.name})
                if (not gone) and st.name in FINAL:
                    return P.fail("C11/retention/claim_of_finished_execution_kept", {"status": st.name})
            if n != 2 - len(left):
                return P.fail("C11/retention/count_wrong")
            return True
        finally:
            w.close()


def claims_retention_owner(wf_status: int, stage_status: int, kind: bool) -> bool:
    """
    post: _
    """
    # A claim of a live execution must survive the retention sweep as long as it still excludes
    # someone: a decided deferred choice stays decided after its winner finished; a mutex stays while
    # its holder is unfinished.
    with hx.Path("claims_retention_owner") as P:
        ws = ST[hx.pick(wf_status, 12)]
        ss = ST[hx.pick(stage_status, 12)]
        choice = hx.decide(kind)
        w = world2.SWorld(name="reto")
        try:
            holder = StageExecution(ref_id="h", name="h", type="x", status=ss)
            other = StageExecution(ref_id="o", name="o", type="x")
            wf = Workflow(application="a", name="w", stages=[holder, other], status=ws)
            w.store.store(wf)
            key = "choice:g" if choice else "mutex:k"
            with hx.native():
                w.db.tables["stage_claims"].append({"execution_id": wf.id, "claim_key": key, "stage_id": holder.id, "claimed_at": symdb.Iso(0)})
            n = w.store.cleanup_completed_stage_claims()
            left = [r["claim_key"] for r in w.table("stage_claims")]
            with hx.native():
                P.reached((ws.name, ss.name, choice))
                info = {"execution": ws.name, "holder_stage": ss.name, "claim": key, "swept": n}
            if ws.name in FINAL:
                if left:
                    return P.fail("C11/retention/claim_of_finished_execution_kept", info)
            elif left != [key] and (choice or ss.name not in FINAL):
                # (a mutex whose holder has finished may be released by anyone: no second stage can run beside it)
                return P.fail("C11/retention/claim_of_live_execution_swept/%s" % ("choice" if choice else "mutex"), info)
            return True
        finally:
            w.close()


PLAN = [
    ("acquire_claim_step", "quick", 280),
    ("mutex_pair", "quick", 200),
    ("choice_pair", "quick", 200),
    ("choice_pair_with_mutex", "quick", 200),
    ("claims_retention", "quick", 200),
    ("claims_retention_owner", "quick", 280),
]

META = {
    "functions": ["src/stabilize/persistence/sqlite/transaction.py:AtomicTransaction.acquire_claim", "src/stabilize/handlers/start_stage/handler.py:_start_if_ready (claim transaction, _ClaimBlockedError paths)",
                  "src/stabilize/handlers/start_stage/conditions.py:_is_mutex_blocked/_is_deferred_choice_claimed", "src/stabilize/persistence/sqlite/operations.py:cleanup_completed_stage_claims"],
    "bounds": ["acquire_claim: 0/1 claim row, owner self/other/vanished, owner status all 12, steal flag", "two sibling stages, B nested in A's read-to-write window, symbolic version",
               "retention: two executions with any of the 12 statuses each"],
    "stubs": ["SymDB instead of SQLite (validated differentially on every run)", "ids/clock stubs as everywhere"],
    "assumptions": [],
}
