"""C06 (function level) - the published transition table and its validating setters (S2)."""
from __future__ import annotations

from vf import hx, stubs

stubs.install()

from stabilize.handlers.base import StabilizeHandler  # noqa: E402
from stabilize.models.stage import StageExecution  # noqa: E402
from stabilize.models.status import (  # noqa: E402
    VALID_TRANSITIONS,
    InvalidStateTransitionError,
    WorkflowStatus,
    can_transition,
    validate_transition,
)
from stabilize.models.task import TaskExecution  # noqa: E402
from stabilize.models.workflow import Workflow  # noqa: E402

ST = list(WorkflowStatus)
# restated from the property / status docs, not imported
FINAL = {"SUCCEEDED", "FAILED_CONTINUE", "TERMINAL", "CANCELED", "STOPPED", "SKIPPED"}


class _H(StabilizeHandler):  # the three validating setters live on the handler base class
    @property
    def message_type(self):  # pragma: no cover
        return object

    def handle(self, message) -> None:  # pragma: no cover
        pass


def table_pair(a: int, b: int) -> bool:
    """
    post: _
    """
    with hx.Path("table_pair") as P:
        cur, tgt = ST[hx.pick(a, 12)], ST[hx.pick(b, 12)]
        allowed = can_transition(cur, tgt)
        P.reached((cur.name, tgt.name, allowed))
        if cur.name in FINAL and cur != tgt and allowed:
            return P.fail("C06/table/completed_status_has_outgoing_edge/%s->%s" % (cur.name, tgt.name))
        if cur.is_complete != (cur.name in FINAL):
            return P.fail("C06/table/is_complete_disagrees_with_documentation/%s" % cur.name)
        if allowed != (cur == tgt or tgt in VALID_TRANSITIONS.get(cur, frozenset())):
            return P.fail("C06/table/can_transition_disagrees_with_table")
        raised = False
        try:
            validate_transition(cur, tgt, "stage", "x")
        except InvalidStateTransitionError:
            raised = True
        if raised == allowed:
            return P.fail("C06/table/validate_transition_inconsistent/%s->%s" % (cur.name, tgt.name))
        h = _H(None, None)  # type: ignore[arg-type]
        stage = StageExecution(ref_id="s", name="s", status=cur)
        task = TaskExecution.create(name="t", implementing_class="x")
        task.status = cur
        wf = Workflow(application="a", name="w", stages=[stage], status=cur)
        for label, fn, obj in (("stage", h.set_stage_status, stage), ("task", h.set_task_status, task), ("workflow", h.set_workflow_status, wf)):
            r = False
            try:
                fn(obj, tgt)
            except InvalidStateTransitionError:
                r = True
            if r == allowed:
                return P.fail("C06/table/set_%s_status_does_not_validate/%s->%s" % (label, cur.name, tgt.name))
            if r and obj.status != cur:
                return P.fail("C06/table/set_%s_status_changed_despite_error" % label)
            if not r and obj.status != tgt:
                return P.fail("C06/table/set_%s_status_did_not_set" % label)
        return True


PLAN = [("table_pair", "quick", 120)]
META = {
    "functions": ["src/stabilize/models/status.py:VALID_TRANSITIONS/can_transition/validate_transition/WorkflowStatus.is_complete",
                  "src/stabilize/handlers/base.py:set_stage_status/set_task_status/set_workflow_status"],
    "bounds": ["all 144 (current, target) status pairs"],
    "stubs": ["ids: ULID() replaced by a counter"],
    "assumptions": [],
}
