"""C09 - the id source of the duplicate filter's hydration is complete (S1: real SQLite, sizes chosen by
the solver).  ``store.get_processed_message_ids(limit)`` must return every processed id (up to the
limit) however many rows there are and however their ``processed_at`` values collide: hydrating from
an incomplete set and then granting authority makes a processed message look new."""
from __future__ import annotations

from vf import hx, stubs

stubs.install()

from vf.native import World  # noqa: E402

SIZES = [0, 1, 2, 499, 500, 501, 502, 999, 1000, 1001, 1499, 1503]


def processed_ids_complete(n: int, same_second: bool, slack: int) -> bool:
    """
    post: _
    """
    with hx.Path("processed_ids_complete") as P:
        with hx.native():
            size = SIZES[hx.pick(n, len(SIZES))]
            same = hx.decide(same_second)
            extra = [1, 0, 100][hx.pick(slack, 3)]  # limit = size + extra (the processor asks for capacity + 1)
            w = World()
            try:
                p = w.peek()
                for i in range(size):
                    ts = "2024-01-01T00:00:%02d+00:00" % (0 if same else (i // 40) % 60)
                    p.execute("INSERT INTO processed_messages(message_id, processed_at, handler_type, execution_id) VALUES(?,?,?,?)", ("m%d" % i, ts, "StartStage", "e"))
                if hasattr(p, "commit"):
                    p.commit()
                got = w.store.get_processed_message_ids(limit=size + extra)
                P.reached((size, same, extra))
                want = {"m%d" % i for i in range(size)}
                info = {"rows": size, "all_in_one_second": same, "limit": size + extra, "returned": None if got is None else len(got)}
                if got is None:
                    return True  # "cannot enumerate": the filter stays advisory (allowed)
                if len(got) != len(set(got)):
                    return P.fail("C09/hydration_source/duplicate_ids", info)
                missing = want - set(got)
                if missing and len(got) < size + extra:
                    return P.fail("C09/hydration_source/processed_ids_missing_below_the_limit", {**info, "missing": len(missing)})
                if set(got) - want:
                    return P.fail("C09/hydration_source/unknown_ids", info)
                return True
            finally:
                w.close()


PLAN = [("processed_ids_complete", "quick", 200)]
META = {
    "functions": ["src/stabilize/persistence/sqlite/operations.py:get_processed_message_ids", "src/stabilize/persistence/sqlite/store/store.py:get_processed_message_ids"],
    "bounds": ["table sizes 0,1,2,499..502,999..1001,1499,1503 (around multiples of 500), processed_at all equal or 40 rows per second, limit = size, size+1, size+100"],
    "stubs": ["ids/clock stubs; rows inserted directly"],
    "assumptions": [],
}
