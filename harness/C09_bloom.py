"""C09 (function level) - the Bloom filter has no false negatives; the duplicate gate (S2).

The real ``BloomDeduplicator`` runs under CrossHair with the two digests of an id replaced by
symbolic integers (``hashlib`` stub inside stabilize.queue.dedup: equal ids -> equal pair, nothing
else is assumed), so the double-hashing arithmetic, the bit addressing and the set/test loops are
decided for every pair (h1, h2).  The gate in ``QueueProcessorMixin._handle_message`` runs with
symbolic answers of the store and of the filter.
"""
from __future__ import annotations

import builtins

from vf import hx, stubs

stubs.install()

import stabilize.queue.dedup as dedup_mod  # noqa: E402
import stabilize.queue.processor.mixins as mixins_mod  # noqa: E402
from stabilize.queue.dedup import BloomDeduplicator  # noqa: E402
from stabilize.queue.messages import StartStage  # noqa: E402
from stabilize.queue.processor.config import QueueProcessorConfig  # noqa: E402
from stabilize.queue.processor.mixins import QueueProcessorMixin  # noqa: E402


class _Hex:
    def __init__(self, value) -> None:
        self.value = value


class _Digest:
    def __init__(self, value) -> None:
        self._v = value

    def hexdigest(self):
        return _Hex(self._v)


class _HashStub:
    """Arbitrary function of the item: equal items -> equal pair (h1, h2)."""

    def __init__(self) -> None:
        self.table: dict[bytes, tuple] = {}

    def md5(self, b: bytes):
        return _Digest(self.table[bytes(b)][0])

    def sha1(self, b: bytes):
        return _Digest(self.table[bytes(b)][1])


def _int(x, *a):
    if isinstance(x, _Hex):
        return x.value
    return builtins.int(x, *a)


_H = _HashStub()
dedup_mod.hashlib = _H  # type: ignore[attr-defined]
dedup_mod.int = _int  # type: ignore[attr-defined]  (module global shadows the builtin inside dedup.py only)

YS = [(0, 1), (3, 5), (7, 0), (14, 14), (123456789, 987654321)]


def _fn(expected_items: int, h1, h2, y, o: int, name: str) -> bool:
    with hx.Path(name) as P:
        _H.table = {b"x": (h1, h2), b"y": y, b"z": (y[1] + 2, y[0] + 1)}
        f = BloomDeduplicator(expected_items=expected_items, false_positive_rate=0.001)
        if o in (1, 3):
            f.mark_seen("y")
        f.mark_seen("x")
        if o in (2, 3):
            f.mark_seen("z")
        seen = f.maybe_seen("x")
        P.reached((o, y))
        if not seen:
            return P.fail("C09/bloom/false_negative_after_mark_seen", {"size": f._size, "k": f._num_hashes, "order": o})
        return True


def _hyd(expected_items: int, h1, h2, name: str) -> bool:
    with hx.Path(name) as P:
        _H.table = {b"x": (h1, h2), b"y": (3, 5)}
        g = BloomDeduplicator(expected_items=expected_items, false_positive_rate=0.001)
        n = g.hydrate(["y", "x"])
        P.reached("hydrate")
        if n != 2 or not g.authoritative:
            return P.fail("C09/bloom/hydrate_does_not_grant_authority_or_miscounts")
        if not g.maybe_seen("x"):
            return P.fail("C09/bloom/false_negative_after_hydrate", {"size": g._size, "k": g._num_hashes})
        g.reset()
        if g.authoritative:
            return P.fail("C09/bloom/reset_keeps_authority")
        if g.items_added != 0:
            return P.fail("C09/bloom/reset_keeps_items")
        return True


def bloom_fn_15(h1: int, h2: int) -> bool:
    """
    pre: 0 <= h1 < 45 and 0 <= h2 < 45
    post: _
    """
    return _fn(1, h1, h2, (3, 5), 3, "bloom15")


def bloom_fn_15_alone(h1: int, h2: int) -> bool:
    """
    pre: 0 <= h1 < 45 and 0 <= h2 < 45
    post: _
    """
    return _fn(1, h1, h2, (7, 0), 0, "bloom15")


def bloom_hydrate_15(h1: int, h2: int) -> bool:
    """
    pre: 0 <= h1 < 45 and 0 <= h2 < 45
    post: _
    """
    return _hyd(1, h1, h2, "hydrate15")


def bloom_fn_15_wide(h1: int, h2: int, yk: int, order: int) -> bool:
    """
    pre: h1 >= 0 and h2 >= 0
    post: _
    """
    return _fn(1, h1, h2, YS[hx.pick(yk, len(YS))], hx.pick(order, 4), "bloom15w")


def bloom_fn_44(h1: int, h2: int) -> bool:
    """
    pre: 0 <= h1 < 88 and 0 <= h2 < 88
    post: _
    """
    return _fn(3, h1, h2, (3, 5), 3, "bloom44")


class _Store:
    def __init__(self, processed) -> None:
        self.processed = processed
        self.queries = 0
        self.marks: list = []

    def is_message_processed(self, message_id):
        self.queries += 1
        return self.processed

    def mark_message_processed(self, message_id, handler_type=None, execution_id=None) -> None:
        self.marks.append(message_id)

    def get_processed_message_ids(self, limit=None):
        return []


class _Filter:
    def __init__(self, maybe, auth) -> None:
        self.maybe = maybe
        self.auth = auth
        self.marked: list = []
        self.expected_items = 10

    def maybe_seen(self, message_id):
        return self.maybe

    @property
    def authoritative(self):
        return self.auth

    def should_reset(self, threshold=0.7):
        return False

    def mark_seen(self, message_id) -> None:
        self.marked.append(message_id)


class _Handler:
    message_type = StartStage

    def __init__(self) -> None:
        self.calls = 0

    def handle(self, message) -> None:
        self.calls += 1


class _Proc(QueueProcessorMixin):
    def __init__(self, store, cfg, handler) -> None:
        self._store = store
        self.config = cfg
        self._handlers = {StartStage: handler}
        self.queue = None  # type: ignore[assignment]


def dedup_gate(processed: bool, maybe: bool, auth: bool, trust: bool, enabled: bool, has_id: bool) -> bool:
    """
    post: _
    """
    with hx.Path("dedup_gate") as P:
        store = _Store(processed)
        flt = _Filter(maybe, auth)
        old = mixins_mod.get_deduplicator
        mixins_mod.get_deduplicator = lambda *a, **k: flt  # type: ignore[assignment]
        try:
            h = _Handler()
            cfg = QueueProcessorConfig(enable_deduplication=bool(hx.decide(enabled)), dedup_trust_negative_cache=bool(hx.decide(trust)))
            p = _Proc(store, cfg, h)
            msg = StartStage(execution_id="e", stage_id="s")
            hid = hx.decide(has_id)
            msg.message_id = "17" if hid else None
            p._handle_message(msg)
        finally:
            mixins_mod.get_deduplicator = old  # type: ignore[assignment]
        with hx.native():
            pr, mb, au = bool(hx.decide(processed)), bool(hx.decide(maybe)), bool(hx.decide(auth))
            en, tr = cfg.enable_deduplication, cfg.dedup_trust_negative_cache
            P.reached((pr, mb, au, tr, en, hid))
            info = {"processed_row": pr, "maybe_seen": mb, "authoritative": au, "trust_negative": tr, "dedup_enabled": en, "has_id": hid, "handler_calls": h.calls}
            committed_before = pr and en and hid
            excluded_corner = tr and au and not mb  # only reachable if another process writes processed_messages (documented unsupported)
            if committed_before and not excluded_corner:
                if h.calls != 0:
                    return P.fail("C09/gate/handled_again_although_processed", info)
                return True
            if h.calls != 1:
                return P.fail("C09/gate/new_message_not_handled_exactly_once", info)
            if en and hid and (store.marks != ["17"] or flt.marked != ["17"]):
                return P.fail("C09/gate/handled_but_not_marked", info)
            return True


def hydrate_window(n: int, fail_at: int, rotated: bool) -> bool:
    """
    post: _
    """
    # What another thread of the same processor can observe while a hydration is in progress, and
    # what is left behind when the id source fails part-way: the filter may claim authority only
    # when every durable id has been loaded (otherwise a negative would skip the durable lookup
    # for an id that was processed).  The observer is the id iterator itself.
    import hashlib

    with hx.Path("hydrate_window") as P:
        k = hx.pick(n, 4)
        fa = hx.pick(fail_at, 5) - 1  # -1: no failure; else the source raises before yielding id number fa
        rot = hx.decide(rotated)
        with hx.native():
            saved = (dedup_mod.hashlib, dedup_mod.int)
            dedup_mod.hashlib, dedup_mod.int = hashlib, builtins.int
            try:
                ids = [str(100 + i) for i in range(k)]
                f = BloomDeduplicator(expected_items=50, false_positive_rate=0.001)
                if rot:
                    f.hydrate(["1", "2"])
                    f.reset()  # a rotation: authority revoked, the filter is empty again
                seen_auth: list[tuple[int, bool, bool]] = []

                def source():
                    for i, x in enumerate(ids):
                        loaded = all(f.maybe_seen(y) for y in ids)
                        seen_auth.append((i, f.authoritative, loaded))
                        if i == fa:
                            raise RuntimeError("id source failed")
                        yield x

                failed = False
                try:
                    f.hydrate(source())
                except RuntimeError:
                    failed = True
                P.reached((k, fa, rot, failed))
                info = {"ids": k, "source_fails_before_id": fa if fa >= 0 else None, "after_rotation": rot, "observations": seen_auth, "failed": failed}
                for i, auth, loaded in seen_auth:
                    if auth and not loaded:
                        return P.fail("C09/hydrate/authoritative_while_ids_are_still_loading", info)
                if failed and f.authoritative and not all(f.maybe_seen(y) for y in ids):
                    return P.fail("C09/hydrate/authoritative_after_failed_hydration", info)
                if not failed and not f.authoritative:
                    return P.fail("C09/hydrate/complete_hydration_not_authoritative", info)
                return True
            finally:
                dedup_mod.hashlib, dedup_mod.int = saved


def authority_invariant(n: int) -> bool:
    """
    pre: 1 <= n <= 3
    post: _
    """
    # After hydrate(all durable ids) and n handled messages of this process, every id this process
    # marked processed is maybe_seen: the excluded corner of dedup_gate is unreachable in one process.
    import hashlib

    with hx.Path("authority_invariant") as P:
        k = hx.pick(n, 4) or 1
        with hx.native():
            saved = (dedup_mod.hashlib, dedup_mod.int)
            dedup_mod.hashlib, dedup_mod.int = hashlib, builtins.int  # real digests here
            try:
                durable = ["1", "2", "3"]
                f = BloomDeduplicator(expected_items=50, false_positive_rate=0.001)
                f.hydrate(durable)

                class S(_Store):
                    def is_message_processed(self, message_id):
                        return message_id in durable

                    def mark_message_processed(self, message_id, handler_type=None, execution_id=None) -> None:
                        durable.append(message_id)

                store = S(False)
                old = mixins_mod.get_deduplicator
                mixins_mod.get_deduplicator = lambda *a, **kk: f  # type: ignore[assignment]
                try:
                    h = _Handler()
                    p = _Proc(store, QueueProcessorConfig(enable_deduplication=True, dedup_trust_negative_cache=True), h)
                    for i in range(k):
                        m = StartStage(execution_id="e", stage_id="s")
                        m.message_id = str(10 + i)
                        p._handle_message(m)
                        p._handle_message(m)  # redelivery
                finally:
                    mixins_mod.get_deduplicator = old  # type: ignore[assignment]
                P.reached(k)
                if h.calls != k:
                    return P.fail("C09/authority/redelivery_handled_again", {"calls": h.calls, "messages": k})
                if not all(f.maybe_seen(i) for i in durable):
                    return P.fail("C09/authority/processed_id_reported_new")
                return True
            finally:
                dedup_mod.hashlib, dedup_mod.int = saved


PLAN = [
    ("bloom_fn_15", "quick", 280),
    ("bloom_fn_15_alone", "quick", 280),
    ("bloom_hydrate_15", "quick", 280),
    ("bloom_fn_15_wide", "thorough", 3000),
    ("dedup_gate", "quick", 120),
    ("authority_invariant", "quick", 60),
    ("hydrate_window", "quick", 60),
    ("bloom_fn_44", "thorough", 1500),
]

META = {
    "functions": ["src/stabilize/queue/dedup.py:BloomDeduplicator._get_hash_positions/_set_bit/_get_bit/mark_seen/maybe_seen/hydrate/reset/_optimal_size/_optimal_hashes",
                  "src/stabilize/queue/processor/mixins.py:QueueProcessorMixin._handle_message"],
    "bounds": ["filter of 15 bits / 11 hash functions (expected_items=1) and 44 bits (expected_items=3, thorough); the id under test has symbolic digests (h1, h2) in [0, 3*size) (quick; unbounded non-negative in the thorough tier, explored-not-exhausted), other ids fixed digest pairs, insertion before/after/both",
               "hydration window: 0-3 durable ids, the id source failing before id 0..3 or not at all, fresh filter or just after a rotation; authority observed before every id is loaded",
               "gate: all 64 combinations of {processed row, filter answer, authoritative, trust_negative, dedup enabled, message has id}"],
    "stubs": ["hash2: hashlib.md5/sha1(...).hexdigest() + int(.,16) inside stabilize.queue.dedup replaced by an arbitrary function of the item (symbolic pair)",
              "store and filter replaced by answer stubs for the gate lemma"],
    "assumptions": ["negative cache ON together with a second process writing processed_messages is documented as unsupported and excluded (the 'excluded corner')",
                    "real MD5/SHA1 are outside"],
}
