"""C03 (function level) - evaluate_readiness against an independent statement of the property (S2).

The real ``stabilize.dag.readiness.evaluate_readiness`` runs under full CrossHair tracing.  Statuses
and join type are chosen by the solver through distinguishing questions (the code hashes enum
members, so they must be concrete on a path); the threshold stays a symbolic integer.
"""
from __future__ import annotations

from vf import hx, stubs

stubs.install()

from stabilize.dag.readiness import PredicatePhase, evaluate_readiness  # noqa: E402
from stabilize.models.stage import JoinType, StageExecution  # noqa: E402
from stabilize.models.status import WorkflowStatus  # noqa: E402

ST = list(WorkflowStatus)  # 12 members
JT = [JoinType.AND, JoinType.OR, JoinType.MULTI_MERGE, JoinType.DISCRIMINATOR, JoinType.N_OF_M]
# independent of stabilize.models.status.CONTINUABLE_STATUSES (the statement of C03 + status docs)
CONT = {"SUCCEEDED", "FAILED_CONTINUE", "SKIPPED", "REDIRECT"}
HALT = {"TERMINAL", "CANCELED", "STOPPED"}


def _spec_ready(jt: JoinType, ups: list[str], refs: list[str], thr, fired: bool, activated: list[str] | None) -> bool:
    n_cont = sum(1 for u in ups if u in CONT)
    all_cont = n_cont == len(ups)
    if jt == JoinType.AND:
        return all_cont
    if jt == JoinType.OR:
        if activated is None:
            return all_cont
        rel = [u for u, r in zip(ups, refs) if r in activated]
        return all(u in CONT for u in rel)
    if jt == JoinType.MULTI_MERGE:
        return n_cont >= 1
    if jt == JoinType.DISCRIMINATOR:
        return (not fired) and n_cont >= 1
    # N_OF_M
    if thr <= 0:
        return all_cont
    return (not fired) and n_cont >= thr


def _run(statuses: list, jt_sym, thr, fired: bool, bypass: bool, act_sym, name: str) -> bool:
    with hx.Path(name) as P:
        sts = [ST[hx.pick(s, 12)] for s in statuses]
        jt = JT[hx.pick(jt_sym, 5)]
        refs = ["u%d" % i for i in range(len(sts))]
        ups = [StageExecution(ref_id=r, name=r, status=s) for r, s in zip(refs, sts)]
        ctx = {}
        if fired:
            ctx["_join_fired"] = True
        activated = None
        if jt == JoinType.OR:
            # 0 = bookkeeping absent, otherwise a bit mask over the upstream refs (+ bit for an unrelated ref)
            m = hx.pick(act_sym, 1 + 2 ** len(sts))
            if m > 0:
                mask = m - 1
                activated = [r for i, r in enumerate(refs) if mask & (1 << i)]
                ctx["_activated_branches"] = list(activated)
        try:
            stage = StageExecution(ref_id="j", name="j", join_type=jt, join_threshold=thr, context=ctx,
                                   requisite_stage_ref_ids=set(refs))
        except ValueError:
            return True  # N_OF_M with a negative threshold is rejected at construction
        before = [u.status for u in ups]
        res = evaluate_readiness(stage, ups, jump_bypass=bypass)
        ready = res.phase == PredicatePhase.READY
        names = [s.name for s in sts]
        if bypass or not ups:
            want = True
        else:
            want = _spec_ready(jt, names, refs, thr, fired, activated)
        P.reached((jt.name, tuple(names), fired, bypass, tuple(activated) if activated is not None else None, ready))
        if [u.status for u in ups] != before:
            return P.fail("C03/readiness/mutates_upstreams")
        if ready and not want:
            return P.fail("C03/readiness/ready_too_early/%s" % jt.name, {"join": jt.name, "upstreams": names, "fired": fired, "activated": activated})
        if want and not ready:
            return P.fail("C03/readiness/never_ready/%s" % jt.name, {"join": jt.name, "upstreams": names, "fired": fired, "activated": activated, "phase": res.phase.name})
        if jt == JoinType.AND and not bypass and any(n in HALT for n in names) and res.phase != PredicatePhase.SKIP:
            return P.fail("C03/readiness/halted_upstream_not_skip", {"upstreams": names, "phase": res.phase.name})
        return True


def readiness_1(s0: int, jt: int, thr: int, fired: bool, bypass: bool, act: int) -> bool:
    """
    pre: -2 <= thr <= 3
    post: _
    """
    return _run([s0], jt, thr, fired, bypass, act, "readiness_1")


def readiness_0(jt: int, thr: int, fired: bool, bypass: bool) -> bool:
    """
    pre: -2 <= thr <= 3
    post: _
    """
    return _run([], jt, thr, fired, bypass, 0, "readiness_0")


def readiness_2_and_or(s0: int, s1: int, jt: int, thr: int, fired: bool, act: int) -> bool:
    """
    pre: -2 <= thr <= 4
    pre: jt <= 1 or jt > 4
    post: _
    """
    return _run([s0, s1], jt, thr, fired, False, act, "readiness_2")


def readiness_2_bypass(s0: int, s1: int, jt: int, thr: int, fired: bool) -> bool:
    """
    pre: -2 <= thr <= 4
    post: _
    """
    return _run([s0, s1], jt, thr, fired, True, 0, "readiness_2")


def readiness_2_mm_disc(s0: int, s1: int, jt: int, thr: int, fired: bool) -> bool:
    """
    pre: -2 <= thr <= 4
    pre: 2 <= jt <= 3
    post: _
    """
    return _run([s0, s1], jt, thr, fired, False, 0, "readiness_2")


def readiness_2_nofm(s0: int, s1: int, thr: int, fired: bool) -> bool:
    """
    pre: -2 <= thr <= 4
    post: _
    """
    return _run([s0, s1], 4, thr, fired, False, 0, "readiness_2")


def _r3(part: int, s1: int, s2: int, jt: int, thr: int, fired: bool, act: int) -> bool:
    return _run([part, s1, s2], jt, thr, fired, False, act, "readiness_3")


def readiness_3_p0(s1: int, s2: int, jt: int, thr: int, fired: bool, act: int) -> bool:
    """
    pre: -1 <= thr <= 4
    post: _
    """
    return _r3(0, s1, s2, jt, thr, fired, act)


def readiness_3_p1(s1: int, s2: int, jt: int, thr: int, fired: bool, act: int) -> bool:
    """
    pre: -1 <= thr <= 4
    post: _
    """
    return _r3(1, s1, s2, jt, thr, fired, act)


def readiness_3_p4(s1: int, s2: int, jt: int, thr: int, fired: bool, act: int) -> bool:
    """
    pre: -1 <= thr <= 4
    post: _
    """
    return _r3(4, s1, s2, jt, thr, fired, act)


def readiness_3_p5(s1: int, s2: int, jt: int, thr: int, fired: bool, act: int) -> bool:
    """
    pre: -1 <= thr <= 4
    post: _
    """
    return _r3(5, s1, s2, jt, thr, fired, act)


def readiness_3_p6(s1: int, s2: int, jt: int, thr: int, fired: bool, act: int) -> bool:
    """
    pre: -1 <= thr <= 4
    post: _
    """
    return _r3(6, s1, s2, jt, thr, fired, act)


def readiness_3_p8(s1: int, s2: int, jt: int, thr: int, fired: bool, act: int) -> bool:
    """
    pre: -1 <= thr <= 4
    post: _
    """
    return _r3(8, s1, s2, jt, thr, fired, act)


def readiness_3_p10(s1: int, s2: int, jt: int, thr: int, fired: bool, act: int) -> bool:
    """
    pre: -1 <= thr <= 4
    post: _
    """
    return _r3(10, s1, s2, jt, thr, fired, act)


PLAN = [
    ("readiness_0", "quick", 60),
    ("readiness_1", "quick", 200),
    ("readiness_2_and_or", "quick", 280),
    ("readiness_2_mm_disc", "quick", 280),
    ("readiness_2_nofm", "quick", 280),
    ("readiness_2_bypass", "quick", 280),
    ("readiness_3_p0", "thorough", 1500),
    ("readiness_3_p1", "thorough", 1500),
    ("readiness_3_p4", "thorough", 1500),
    ("readiness_3_p5", "thorough", 1500),
    ("readiness_3_p6", "thorough", 1500),
    ("readiness_3_p8", "thorough", 1500),
    ("readiness_3_p10", "thorough", 1500),
]

META = {
    "functions": ["src/stabilize/dag/readiness.py:evaluate_readiness (+ _evaluate_and_join/_or_join/_multi_merge/_discriminator/_n_of_m)",
                  "src/stabilize/models/stage/stage.py:StageExecution.__post_init__"],
    "bounds": ["0-2 upstreams x all 12 statuses x 5 join types x threshold in [-2,4] (symbolic int) x _join_fired x jump_bypass x every "
               "_activated_branches subset (quick); 3 upstreams with the first status a representative of each class "
               "(NOT_STARTED, RUNNING, SUCCEEDED, FAILED_CONTINUE, TERMINAL, REDIRECT, SKIPPED) (thorough)"],
    "stubs": ["ids: ULID() replaced by a counter"],
    "assumptions": ["CONTINUABLE = {SUCCEEDED, FAILED_CONTINUE, SKIPPED, REDIRECT} as documented in models/status.py (restated in the harness, not imported)"],
}
