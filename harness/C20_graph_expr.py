"""C20 - graph validation and condition expressions are sound and total (S2, pure functions).

The real ``Workflow.create`` / ``validate_stage_graph`` / ``topological_sort`` and the real
``_eval_node`` / ``evaluate_expression`` run under CrossHair; graphs and expression trees are built
from solver-chosen selectors (distinguishing questions), so a verdict "Confirmed over all paths"
covers every graph / tree within the stated shape bound.
"""
from __future__ import annotations

import ast

from vf import hx, stubs

stubs.install()

from stabilize.dag.topological import CircularDependencyError, InvalidStageGraphError, topological_sort  # noqa: E402
from stabilize.expressions import ExpressionError, _eval_node, evaluate_expression  # noqa: E402
from stabilize.models.stage import StageExecution  # noqa: E402
from stabilize.models.workflow import Workflow  # noqa: E402

NAMES = ["a", "b", "c", "d"]


# --------------------------------------------------------------------------------------------- graphs
def _acyclic(edges: dict[str, set[str]]) -> bool:
    state: dict[str, int] = {}

    def dfs(u: str) -> bool:
        state[u] = 1
        for v in edges.get(u, ()):
            if state.get(v) == 1:
                return False
            if state.get(v, 0) == 0 and not dfs(v):
                return False
        state[u] = 2
        return True

    return all(dfs(u) for u in list(edges) if state.get(u, 0) == 0)


def _graph(refs: list[str], reqs: list[set[str]], name: str) -> bool:
    with hx.Path(name) as P:
        with hx.native():
            stages = [StageExecution(ref_id=r, name="s%d" % i, requisite_stage_ref_ids=set(q)) for i, (r, q) in enumerate(zip(refs, reqs))]
            uniq = len(set(refs)) == len(refs)
            known = all(q <= set(refs) for q in reqs)
            noself = all(r not in q for r, q in zip(refs, reqs))
            acyc = uniq and known and noself and _acyclic({r: set(q) for r, q in zip(refs, reqs)})
            want_ok = uniq and known and noself and acyc
            sig = (tuple(refs), tuple(tuple(sorted(q)) for q in reqs))
        wf = None
        other = None
        try:
            wf = Workflow.create(application="a", name="w", stages=stages)
            ok = True
        except (InvalidStageGraphError, CircularDependencyError):
            ok = False
        except Exception as e:
            ok = False
            other = type(e).__name__
        order = topological_sort(wf.stages) if ok else None
        with hx.native():
            P.reached((sig, ok))
            info = {"refs": refs, "requisites": [sorted(q) for q in reqs], "accepted": ok}
            if other is not None:
                return P.fail("C20/graph/raises_%s" % other, info)
            if ok and not want_ok:
                why = "duplicate" if not uniq else "unknown_ref" if not known else "self_edge" if not noself else "cycle"
                return P.fail("C20/graph/accepted_invalid_graph/%s" % why, info)
            if want_ok and not ok:
                return P.fail("C20/graph/rejected_valid_graph", info)
            if ok:
                if len(order) != len(stages) or {id(s) for s in order} != {id(s) for s in stages}:
                    return P.fail("C20/graph/order_is_not_a_permutation", info)
                pos = {s.ref_id: i for i, s in enumerate(order)}
                for s in order:
                    for q in s.requisite_stage_ref_ids:
                        if pos[q] >= pos[s.ref_id]:
                            return P.fail("C20/graph/stage_listed_before_its_dependency", {**info, "order": [x.ref_id for x in order]})
            return True


def _mask(sym, universe: list[str]) -> set[str]:
    out = set()
    m = hx.pick(sym, 2 ** len(universe))
    for i, u in enumerate(universe):
        if m & (1 << i):
            out.add(u)
    return out


def graph_after_twin(m1: int, m2: int, dupk: int) -> bool:
    """
    post: _
    """
    # Validation must not depend on what was validated before in the same process: a valid graph is
    # created first, then the same graph with one stage duplicated (same ref_id, same requisites).
    with hx.Path("graph_after_twin") as P:
        refs = ["a", "b", "c"]
        reqs = [set(), _mask(m1, ["a"]), _mask(m2, ["a", "b"])]
        k = hx.pick(dupk, 3)
        with hx.native():
            first = [StageExecution(ref_id=r, name="s%d" % i, requisite_stage_ref_ids=set(q)) for i, (r, q) in enumerate(zip(refs, reqs))]
        try:
            Workflow.create(application="a", name="w", stages=first)
        except Exception as e:
            return P.fail("C20/graph/rejected_valid_graph", {"refs": refs, "exception": type(e).__name__})
        with hx.native():
            second = [StageExecution(ref_id=r, name="t%d" % i, requisite_stage_ref_ids=set(q)) for i, (r, q) in enumerate(zip(refs, reqs))]
            second.append(StageExecution(ref_id=refs[k], name="dup", requisite_stage_ref_ids=set(reqs[k])))
            P.reached((tuple(sorted(reqs[1])), tuple(sorted(reqs[2])), k))
        try:
            Workflow.create(application="a", name="w", stages=second)
        except (InvalidStageGraphError, CircularDependencyError):
            return True
        except Exception as e:
            return P.fail("C20/graph/raises_%s" % type(e).__name__, {"duplicated": refs[k]})
        return P.fail("C20/graph/accepted_invalid_graph/duplicate_after_its_valid_twin", {"refs": refs + [refs[k]], "requisites": [sorted(q) for q in reqs] + [sorted(reqs[k])]})


def graph3_unique(m0: int, m1: int, m2: int, z: int) -> bool:
    """
    post: _
    """
    refs = ["a", "b", "c"]
    reqs = [_mask(m0, refs), _mask(m1, refs), _mask(m2, refs)]
    k = hx.pick(z, 4)
    if k:
        reqs[k - 1].add("zz")
    return _graph(refs, reqs, "graph3")


def graph3_dups(r1: int, r2: int, m0: int, m1: int, m2: int) -> bool:
    """
    post: _
    """
    refs = ["a", ["a", "b"][hx.pick(r1, 2)], ["a", "b", "c"][hx.pick(r2, 3)]]
    uni = ["a", "b", "c"]
    reqs = [_mask(m0, uni[:2]), _mask(m1, uni), _mask(m2, uni[:2])]
    return _graph(refs, reqs, "graph3d")


def _g4(part: int, m1: int, m2: int, m3: int) -> bool:
    refs = ["a", "b", "c", "d"]
    m0 = set(u for i, u in enumerate(refs) if part & (1 << i))
    return _graph(refs, [m0, _mask(m1, refs), _mask(m2, refs), _mask(m3, refs)], "graph4")


def graph4_p0(m1: int, m2: int, m3: int) -> bool:
    """
    post: _
    """
    return _g4(0, m1, m2, m3)


def graph4_p2(m1: int, m2: int, m3: int) -> bool:
    """
    post: _
    """
    return _g4(2, m1, m2, m3)


def graph4_p6(m1: int, m2: int, m3: int) -> bool:
    """
    post: _
    """
    return _g4(6, m1, m2, m3)


def graph4_p14(m1: int, m2: int, m3: int) -> bool:
    """
    post: _
    """
    return _g4(14, m1, m2, m3)


# --------------------------------------------------------------------------------------------- expressions
CTX_PROTO = {"i": 3, "s": "k", "l": [1, 2], "d": {"k": 1}, "t": (1,), "n": None, "b": True, "f": 2.5, "e": {}, "ls": [[1]]}
LEAVES = [
    lambda: ast.Constant(0),
    lambda: ast.Constant(7),
    lambda: ast.Constant("k"),
    lambda: ast.Constant(None),
    lambda: ast.Constant(True),
    lambda: ast.Name("i", ast.Load()),
    lambda: ast.Name("s", ast.Load()),
    lambda: ast.Name("l", ast.Load()),
    lambda: ast.Name("d", ast.Load()),
    lambda: ast.Name("t", ast.Load()),
    lambda: ast.Name("missing", ast.Load()),
    lambda: ast.Name("f", ast.Load()),
]
NL = len(LEAVES)
CMP = [ast.Eq, ast.NotEq, ast.Lt, ast.LtE, ast.Gt, ast.GtE, ast.Is, ast.IsNot, ast.In, ast.NotIn]
UNARY = [ast.Not, ast.USub, ast.UAdd, ast.Invert]


def _leaf(sym) -> ast.AST:
    return LEAVES[hx.pick(sym, NL)]()


def _fresh_ctx() -> dict:
    return {k: (list(v) if isinstance(v, list) else dict(v) if isinstance(v, dict) else v) for k, v in CTX_PROTO.items()}


def _check_expr(tree: ast.AST, name: str, sig) -> bool:
    """Only the calls of the real functions run under tracing; all bookkeeping is native."""
    with hx.Path(name) as P:
        with hx.native():
            ctx = _fresh_ctx()
            before = repr(ctx)
            try:
                text = ast.unparse(ast.fix_missing_locations(tree))
            except Exception:
                text = None
            P.reached(text if text is not None else str(sig))
            shape = _shape(tree)
        exc = None
        val = None
        try:
            val = _eval_node(tree, ctx)
        except ExpressionError:
            exc = "ExpressionError"
        except Exception as e:  # any other exception type breaks totality
            exc = type(e).__name__ + ": " + str(e)[:120]
        with hx.native():
            if exc is not None and exc != "ExpressionError":
                return P.fail("C20/expr/raises_%s/%s" % (exc.split(":")[0], shape), {"expression": text, "exception": exc})
            outcome = ("ExpressionError", "") if exc else ("value", repr(val))
            if repr(ctx) != before:
                return P.fail("C20/expr/mutates_context/%s" % shape, {"expression": text})
        if text is not None:
            ctx2 = _fresh_ctx()
            exc2 = None
            v2 = None
            try:
                v2 = evaluate_expression(text, ctx2)
            except ExpressionError:
                exc2 = "ExpressionError"
            except Exception as e:
                exc2 = type(e).__name__ + ": " + str(e)[:120]
            with hx.native():
                if exc2 is not None and exc2 != "ExpressionError":
                    return P.fail("C20/expr/text_raises_%s/%s" % (exc2.split(":")[0], shape), {"expression": text, "exception": exc2})
                o2 = ("ExpressionError", "") if exc2 else ("value", repr(v2))
                if o2 != outcome and text.strip().lower() not in ("true", "false", "1", "0"):
                    return P.fail("C20/expr/text_and_tree_disagree/%s" % shape, {"expression": text, "tree": outcome, "text": o2})
        return True


def _shape(node: ast.AST) -> str:
    """Abstract shape used in finding keys: node class names, operator classes, operand kinds."""
    if isinstance(node, ast.Constant):
        return "Const:" + type(node.value).__name__
    if isinstance(node, ast.Name):
        v = CTX_PROTO.get(node.id, None)
        return "Name:" + (type(v).__name__ if node.id in CTX_PROTO else "missing")
    if isinstance(node, ast.UnaryOp):
        return "%s(%s)" % (type(node.op).__name__, _shape(node.operand))
    if isinstance(node, ast.Compare):
        return "Compare[%s](%s,%s)" % (",".join(type(o).__name__ for o in node.ops), _shape(node.left), ",".join(_shape(c) for c in node.comparators))
    if isinstance(node, ast.Subscript):
        return "Subscript(%s,%s)" % (_shape(node.value), _shape(node.slice))
    if isinstance(node, ast.Attribute):
        return "Attribute(%s)" % _shape(node.value)
    if isinstance(node, ast.BoolOp):
        return "%s(%s)" % (type(node.op).__name__, ",".join(_shape(v) for v in node.values))
    if isinstance(node, ast.IfExp):
        return "IfExp(%s,%s,%s)" % (_shape(node.test), _shape(node.body), _shape(node.orelse))
    if isinstance(node, (ast.List, ast.Tuple)):
        return "%s(%s)" % (type(node).__name__, ",".join(_shape(e) for e in node.elts))
    return type(node).__name__


def expr_leaf(a: int) -> bool:
    """
    post: _
    """
    return _check_expr(_leaf(a), "expr_leaf", a)


def expr_unary(op: int, a: int) -> bool:
    """
    post: _
    """
    return _check_expr(ast.UnaryOp(UNARY[hx.pick(op, 4)](), _leaf(a)), "expr_unary", (op, a))


def expr_compare(op: int, a: int, b: int) -> bool:
    """
    post: _
    """
    return _check_expr(ast.Compare(_leaf(a), [CMP[hx.pick(op, 10)]()], [_leaf(b)]), "expr_compare", (op, a, b))


def expr_compare_chain(op1: int, op2: int, a: int, b: int, c: int) -> bool:
    """
    pre: 0 <= op1 <= 3 and 0 <= op2 <= 3
    post: _
    """
    ops = [ast.Eq, ast.Lt, ast.In, ast.Is]
    return _check_expr(ast.Compare(_leaf(a), [ops[hx.pick(op1, 4)](), ops[hx.pick(op2, 4)]()], [_leaf(b), _leaf(c)]), "expr_chain", (op1, op2, a, b, c))


def expr_subscript(a: int, b: int) -> bool:
    """
    post: _
    """
    return _check_expr(ast.Subscript(_leaf(a), _leaf(b), ast.Load()), "expr_subscript", (a, b))


CONTAINERS = ["l", "t", "s", "ls", "d", "e"]  # list of 2, tuple of 1, str of 1, nested list of 1, dict, empty dict
INDEXES = [0, 1, 2, 3, 10 ** 9, True, "k", None, 2.5]


def expr_subscript_index(c: int, k: int, neg: bool) -> bool:
    """Subscripts at and beyond both ends of every container kind: positions 0..len+1 and huge,
    written as non-negative literals and (neg) behind a unary minus, plus non-integer keys.
    post: _
    """
    cont = ast.Name(CONTAINERS[hx.pick(c, len(CONTAINERS))], ast.Load())
    key = INDEXES[hx.pick(k, len(INDEXES))]
    idx: ast.AST = ast.Constant(key)
    if hx.decide(neg):
        idx = ast.UnaryOp(ast.USub(), idx)
    return _check_expr(ast.Subscript(cont, idx, ast.Load()), "expr_subscript_index", (c, k, neg))


def expr_attribute(a: int) -> bool:
    """
    post: _
    """
    return _check_expr(ast.Attribute(_leaf(a), "k", ast.Load()), "expr_attribute", a)


def expr_boolop(op: int, a: int, b: int) -> bool:
    """
    post: _
    """
    return _check_expr(ast.BoolOp([ast.And, ast.Or][hx.pick(op, 2)](), [_leaf(a), _leaf(b)]), "expr_boolop", (op, a, b))


def expr_ifexp(a: int, b: int, c: int) -> bool:
    """
    post: _
    """
    return _check_expr(ast.IfExp(_leaf(a), _leaf(b), _leaf(c)), "expr_ifexp", (a, b, c))


def expr_seq(kind: int, a: int, b: int) -> bool:
    """
    post: _
    """
    cls = [ast.List, ast.Tuple][hx.pick(kind, 2)]
    return _check_expr(cls([_leaf(a), _leaf(b)], ast.Load()), "expr_seq", (kind, a, b))


def _unsupported(k: int, x: ast.AST, y: ast.AST) -> ast.AST:
    return [
        lambda: ast.BinOp(x, ast.Add(), y),
        lambda: ast.BinOp(x, ast.Mult(), y),
        lambda: ast.BinOp(x, ast.Pow(), y),
        lambda: ast.Call(x, [y], []),
        lambda: ast.Call(ast.Name("print", ast.Load()), [y], []),
        lambda: ast.Call(ast.Attribute(x, "append", ast.Load()), [y], []),
        lambda: ast.Lambda(ast.arguments([], [], None, [], [], None, []), x),
        lambda: ast.Dict([x], [y]),
        lambda: ast.Set([x, y]),
        lambda: ast.JoinedStr([ast.FormattedValue(x, -1, None)]),
        lambda: ast.Subscript(x, ast.Slice(y, None, None), ast.Load()),
        lambda: ast.ListComp(x, [ast.comprehension(ast.Name("q", ast.Store()), y, [], 0)]),
        lambda: ast.NamedExpr(ast.Name("q", ast.Store()), x),
        lambda: ast.Starred(x, ast.Load()),
    ][k]()


NU = 14


def expr_unsupported(k: int, a: int, b: int) -> bool:
    """
    post: _
    """
    kk = hx.pick(k, NU)
    tree = _unsupported(kk, _leaf(a), _leaf(b))
    with hx.Path("expr_unsupported_must_raise") as P:
        ctx = {kx: (list(v) if isinstance(v, list) else dict(v) if isinstance(v, dict) else v) for kx, v in CTX_PROTO.items()}
        try:
            _eval_node(tree, ctx)
        except ExpressionError:
            pass
        except Exception:
            pass  # reported by _check_expr below with the proper key
        else:
            if not (kk == 10):  # Subscript with a Slice is evaluated through the supported Subscript branch
                return P.fail("C20/expr/unsupported_construct_evaluated/%s" % type(tree).__name__, {"node": type(tree).__name__})
    return _check_expr(tree, "expr_unsupported", (k, a, b))


def _inner(kind: int, a, b) -> ast.AST:
    """A depth-2 node of one of the supported kinds with leaf children."""
    return [
        lambda: ast.UnaryOp(ast.Not(), _leaf(a)),
        lambda: ast.UnaryOp(ast.USub(), _leaf(a)),
        lambda: ast.Compare(_leaf(a), [ast.Eq()], [_leaf(b)]),
        lambda: ast.Compare(_leaf(a), [ast.Lt()], [_leaf(b)]),
        lambda: ast.Compare(_leaf(a), [ast.In()], [_leaf(b)]),
        lambda: ast.Subscript(_leaf(a), _leaf(b), ast.Load()),
        lambda: ast.Attribute(_leaf(a), "k", ast.Load()),
        lambda: ast.BoolOp(ast.And(), [_leaf(a), _leaf(b)]),
        lambda: ast.List([_leaf(a), _leaf(b)], ast.Load()),
        lambda: ast.Tuple([_leaf(a)], ast.Load()),
        lambda: ast.IfExp(_leaf(a), _leaf(b), _leaf(a)),
    ][kind]()


NI = 11


def _d3(root: int, ik, a, b, c) -> ast.AST:
    x = _inner(hx.pick(ik, NI), a, b)
    y = _leaf(c)
    return [
        lambda: ast.UnaryOp(ast.USub(), x),
        lambda: ast.UnaryOp(ast.Not(), x),
        lambda: ast.Compare(x, [ast.Lt()], [y]),
        lambda: ast.Compare(y, [ast.In()], [x]),
        lambda: ast.Subscript(x, y, ast.Load()),
        lambda: ast.Subscript(y, x, ast.Load()),
        lambda: ast.Attribute(x, "k", ast.Load()),
        lambda: ast.BoolOp(ast.Or(), [x, y]),
        lambda: ast.IfExp(x, y, x),
    ][root]()


def expr_depth3_usub(ik: int, a: int, b: int, c: int) -> bool:
    """
    post: _
    """
    return _check_expr(_d3(0, ik, a, b, c), "expr_d3", (0, ik, a, b, c))


def expr_depth3_cmp(ik: int, a: int, b: int, c: int) -> bool:
    """
    post: _
    """
    return _check_expr(_d3(2, ik, a, b, c), "expr_d3", (2, ik, a, b, c))


def expr_depth3_in(ik: int, a: int, b: int, c: int) -> bool:
    """
    post: _
    """
    return _check_expr(_d3(3, ik, a, b, c), "expr_d3", (3, ik, a, b, c))


def expr_depth3_sub(ik: int, a: int, b: int, c: int) -> bool:
    """
    post: _
    """
    return _check_expr(_d3(4, ik, a, b, c), "expr_d3", (4, ik, a, b, c))


def expr_depth3_subkey(ik: int, a: int, b: int, c: int) -> bool:
    """
    post: _
    """
    return _check_expr(_d3(5, ik, a, b, c), "expr_d3", (5, ik, a, b, c))


def expr_depth3_ifexp(ik: int, a: int, b: int, c: int) -> bool:
    """
    post: _
    """
    return _check_expr(_d3(8, ik, a, b, c), "expr_d3", (8, ik, a, b, c))


# --------------------------------------------------------------------------------------------- text level
HOSTILE = [
    ("not", lambda n: "not " * n + "a"),
    ("neg", lambda n: "-" * n + "1"),
    ("attr", lambda n: "d" + ".k" * n),
    ("sub", lambda n: "l" + "[0]" * n),
    ("parens", lambda n: "(" * n + "1" + ")" * n),
    ("list", lambda n: "[" * n + "]" * n),
    ("and", lambda n: "a and (" * n + "a" + ")" * n),
    ("binop", lambda n: "1" + "+1" * n),
    ("cmp", lambda n: "1" + " < 2" * n),
    ("ifexp", lambda n: "1 if a else " * n + "2"),
    ("surrogate", lambda n: "'" + "x" * (n % 7) + chr(0xD800) + "' == a"),
    ("nul", lambda n: "a" + chr(0) * (1 + n % 3) + "b"),
    ("digits", lambda n: "1" * (n * 5) + " == a"),
    ("name", lambda n: "x" * (n * 5)),
    ("tabs", lambda n: chr(9) * n + "a"),
    ("newlines", lambda n: "a" + chr(10) * n + "== 1"),
    ("float", lambda n: "1e" + "9" * (1 + n % 5) + " > a"),
    ("alldigits", lambda n: "9" * (n * 5)),  # the whole text is one integer literal (up to 25000 digits: beyond the interpreter's int-conversion limit)
    ("unidigits", lambda n: [chr(0xB2), "1" + chr(0xB3), chr(0x2460), chr(0x663), chr(0xFF11) + chr(0xFF12), "0" + chr(0x660)][n % 6]),  # text made of Unicode digit characters only
]
DEPTHS = [1, 40, 150, 240, 400, 950, 1600, 5000]
BASES = [0, 300, 700]


def _at_depth(k: int, f):
    return _at_depth(k - 1, f) if k > 0 else f()


def expr_hostile_text(kind: int, depth: int, base: int) -> bool:
    """
    post: _
    """
    with hx.Path("expr_hostile_text") as P:
        name, gen = HOSTILE[hx.pick(kind, len(HOSTILE))]
        n = DEPTHS[hx.pick(depth, len(DEPTHS))]
        b = BASES[hx.pick(base, len(BASES))]
        with hx.native():  # the text is concrete on every path; ast.parse is C code
            text = gen(n)
            P.reached((name, n, b))
            ctx = _fresh_ctx()
            before = repr(ctx)
            exc = None
            try:
                _at_depth(b, lambda: evaluate_expression(text, ctx))
            except ExpressionError:
                pass
            except BaseException as e:  # noqa: BLE001 - nothing but the evaluator's own error may escape
                exc = type(e).__name__
            if exc is not None:
                return P.fail("C20/text/%s/raises_%s" % (name, exc), {"text_class": name, "repeat": n, "call_stack_depth": b, "text_prefix": text[:40], "exception": exc})
            if repr(ctx) != before:
                return P.fail("C20/text/%s/mutates_context" % name, {"repeat": n})
        return True


# --------------------------------------------------------------------------------------------- callers
def callers_catch(k: int) -> bool:
    """
    pre: 0 <= k <= 5
    post: _
    """
    from stabilize.handlers.complete_stage.split_logic import CompleteStagesSplitMixin
    from stabilize.handlers.start_stage.conditions import StartStageConditionsMixin
    from stabilize.models.stage import SplitType

    with hx.Path("callers_catch") as P:
        cond = ["x ==", "f(1)", "a +", "1 < 'a'", "lambda: 1", "(1, 2) < 3"][hx.pick(k, 6)]
        P.reached(cond)
        d1 = StageExecution(ref_id="d1", name="d1", requisite_stage_ref_ids={"s"})
        d2 = StageExecution(ref_id="d2", name="d2", requisite_stage_ref_ids={"s"})
        s = StageExecution(ref_id="s", name="s", split_type=SplitType.OR, split_conditions={"d1": cond, "d2": "true"})
        try:
            act, skip = CompleteStagesSplitMixin()._apply_split_logic(s, [d1, d2])
        except Exception as e:
            return P.fail("C20/callers/split_logic_raises_%s" % type(e).__name__, {"condition": cond})
        if [x.ref_id for x in act] != ["d2"] or [x.ref_id for x in skip] != ["d1"]:
            return P.fail("C20/callers/malformed_condition_did_not_skip_branch", {"condition": cond, "activated": [x.ref_id for x in act]})
        st = StageExecution(ref_id="q", name="q", context={"stageEnabled": {"type": "expression", "expression": cond}})
        up = StageExecution(ref_id="up", name="up", outputs={"v": 1})
        wf = Workflow(application="a", name="w", stages=[up, st])  # handlers always see attached stages
        try:
            r = StartStageConditionsMixin()._should_skip(st)
        except Exception as e:
            return P.fail("C20/callers/should_skip_raises_%s" % type(e).__name__, {"condition": cond})
        if r is not False:
            return P.fail("C20/callers/malformed_condition_skipped_stage", {"condition": cond})
        return True


PLAN = [
    ("graph3_unique", "quick", 280),
    ("graph3_dups", "quick", 280),
    ("graph_after_twin", "quick", 120),
    ("graph4_p0", "thorough", 1500),
    ("graph4_p2", "thorough", 1500),
    ("graph4_p6", "thorough", 1500),
    ("graph4_p14", "thorough", 1500),
    ("expr_leaf", "quick", 60),
    ("expr_unary", "quick", 120),
    ("expr_compare", "quick", 280),
    ("expr_compare_chain", "thorough", 1500),
    ("expr_subscript", "quick", 120),
    ("expr_subscript_index", "quick", 120),
    ("expr_attribute", "quick", 60),
    ("expr_boolop", "quick", 120),
    ("expr_ifexp", "quick", 280),
    ("expr_seq", "quick", 120),
    ("expr_unsupported", "quick", 280),
    ("expr_depth3_usub", "thorough", 1500),
    ("expr_depth3_cmp", "thorough", 1500),
    ("expr_depth3_in", "thorough", 1500),
    ("expr_depth3_sub", "thorough", 1500),
    ("expr_depth3_subkey", "thorough", 1500),
    ("expr_depth3_ifexp", "thorough", 1500),
    ("callers_catch", "quick", 60),
    ("expr_hostile_text", "quick", 280),
]

META = {
    "functions": ["src/stabilize/dag/topological.py:validate_stage_graph/topological_sort", "src/stabilize/models/workflow.py:Workflow.create",
                  "src/stabilize/expressions.py:_eval_node/evaluate_expression",
                  "src/stabilize/handlers/complete_stage/split_logic.py:_apply_split_logic", "src/stabilize/handlers/start_stage/conditions.py:_should_skip"],
    "bounds": ["graphs: 3 stages (refs unique or duplicated, requisites any subset of the refs, one unknown ref) exhaustively; 4 stages with 4 representative requisite sets for the first stage (thorough)",
               "expressions: every supported node class with leaf children over 12 leaf kinds (int/str/None/bool constants, names bound to int, str, list, dict, tuple, float, unbound) - depth 2 exhaustively; 14 unsupported constructs; depth 3 for 6 root shapes over 11 inner shapes (thorough)",
               "text: what ast.unparse of those trees produces, plus 19 classes of hostile text (nesting of each recursive construct repeated 1..5000 times, lone surrogate, NUL, huge literals/names, whitespace) evaluated at call-stack depths 0/300/700"],
    "stubs": ["ids: ULID() replaced by a counter"],
    "assumptions": ["text -> AST (ast.parse, C code) is outside: it is exercised concretely on the unparsed text of every explored tree"],
}
