"""C17 / C18 / C10 handler-step lemmas over SymDB (S2): one step of the real handler from a
solver-chosen durable state.

* ``run_task_checks_cancel`` (C17): RunTaskHandler never enters the task body when the workflow is
  canceled or already complete.
* ``cancel_workflow_step`` (C17): CancelWorkflowHandler sets the flag and queues one CancelStage per
  unfinished top-level stage plus one CompleteWorkflow, with the processed mark, in one commit.
"""
from __future__ import annotations

import datetime as _dt

from harness.s2util import ST, row_of, set_cells
from vf import hx, symdb, world2
import json

from stabilize import Task, TaskRegistry, TaskResult  # noqa: E402
from stabilize.handlers import CancelWorkflowHandler, RunTaskHandler  # noqa: E402
from stabilize.models.stage import StageExecution  # noqa: E402
from stabilize.models.status import WorkflowStatus  # noqa: E402
from stabilize.models.task import TaskExecution  # noqa: E402
from stabilize.models.workflow import Workflow  # noqa: E402
from stabilize.queue.messages import CancelWorkflow, RunTask  # noqa: E402

_CREATED = _dt.datetime(2024, 1, 1)
FINAL = {"SUCCEEDED", "FAILED_CONTINUE", "TERMINAL", "CANCELED", "STOPPED", "SKIPPED"}
RAN: list[str] = []


class _Probe(Task):
    def execute(self, stage):
        RAN.append(stage.ref_id)
        return TaskResult.success(outputs={"x": 1})


def _payloads(w, mtype: str) -> list[dict]:
    out = []
    for r in w.table("queue_messages"):
        if r["message_type"] == mtype:
            p = r["payload"]
            out.append(p.obj if isinstance(p, symdb.JText) else json.loads(p))
    return out


def run_task_checks_cancel(canceled: bool, wf_status: int, task_status: int) -> bool:
    """
    post: _
    """
    with hx.Path("run_task_checks_cancel") as P:
        cn = hx.decide(canceled)
        ws = ST[hx.pick(wf_status, 12)]
        ts = ST[hx.pick(task_status, 12)]
        w = world2.SWorld(name="rt")
        try:
            t = TaskExecution.create(name="t", implementing_class="probe", stage_start=True, stage_end=True)
            t.status = ts
            s = StageExecution(ref_id="s", name="s", type="probe", status=WorkflowStatus.RUNNING, tasks=[t])
            wf = Workflow(application="a", name="w", stages=[s], status=ws, is_canceled=cn)
            w.store.store(wf)
            reg = TaskRegistry()
            reg.register("probe", _Probe)
            del RAN[:]
            h = RunTaskHandler(w.queue, w.store, reg)
            m = RunTask(execution_id=wf.id, stage_id=s.id, task_id=t.id, task_type="probe", created_at=_CREATED)
            m.message_id = "31"
            h.handle(m)
            with hx.native():
                ran = bool(RAN)
                P.reached((cn, ws.name, ts.name, ran))
                info = {"is_canceled": cn, "workflow": ws.name, "task": ts.name, "task_body_executed": ran}
            may_run = (not cn) and ws.name not in FINAL and ws.name != "PAUSED" and ts.name == "RUNNING"
            if ran and not may_run:
                why = "canceled" if cn else ("workflow_" + ws.name if ws.name in FINAL or ws.name == "PAUSED" else "task_" + ts.name)
                return P.fail("C17/run_task/task_body_executed_although_%s" % why, info)
            if may_run and not ran:
                return P.fail("C17/run_task/runnable_task_not_executed", info)
            if ts.name == "RUNNING" and (cn or ws.name in FINAL):
                comp = _payloads(w, "CompleteTask")
                if len(comp) != 1 or comp[0].get("status") != "CANCELED":
                    return P.fail("C17/run_task/canceled_task_not_completed_as_CANCELED", {**info, "queued": comp})
            return True
        finally:
            w.close()


def cancel_workflow_step(wf_status: int, s1: int) -> bool:
    """
    post: _
    """
    return _cancel_workflow_step("cancel_workflow_step", wf_status, s1, 0)


def cancel_workflow_step_two(wf_status: int, s1: int, s2: int) -> bool:
    """
    post: _
    """
    return _cancel_workflow_step("cancel_workflow_step_two", wf_status, s1, s2)


def _cancel_workflow_step(name: str, wf_status, s1, s2) -> bool:
    with hx.Path(name) as P:
        ws = ST[hx.pick(wf_status, 12)]
        a, b = ST[hx.pick(s1, 12)], ST[hx.pick(s2, 12)]
        w = world2.SWorld(name="cw")
        try:
            mk = lambda ref, deps, st: StageExecution(ref_id=ref, name=ref, type="x", status=st, requisite_stage_ref_ids=set(deps),  # noqa: E731
                                                      tasks=[TaskExecution.create(name="t", implementing_class="x", stage_start=True, stage_end=True)])
            st1, st2 = mk("p", [], a), mk("q", ["p"], b)
            wf = Workflow(application="a", name="w", stages=[st1, st2], status=ws)
            w.store.store(wf)
            m = CancelWorkflow(execution_id=wf.id, user="u", reason="r", created_at=_CREATED)
            m.message_id = "41"
            CancelWorkflowHandler(w.queue, w.store).handle(m)
            row = row_of(w, "pipeline_executions", wf.id)
            cs = _payloads(w, "CancelStage")
            cw = _payloads(w, "CompleteWorkflow")
            processed = [r["message_id"] for r in w.table("processed_messages")]
            with hx.native():
                P.reached((ws.name, a.name, b.name))
                info = {"workflow": ws.name, "stages": [a.name, b.name], "CancelStage": [c.get("stage_id") for c in cs], "CompleteWorkflow": len(cw)}
            if ws.name in FINAL:
                if cs or cw or row["is_canceled"]:
                    return P.fail("C17/cancel_workflow/finished_workflow_touched", info)
                return True
            if not row["is_canceled"]:
                return P.fail("C17/cancel_workflow/flag_not_set", info)
            want = sorted(s.id for s, st in ((st1, a), (st2, b)) if st.name not in FINAL)
            if sorted(c.get("stage_id") for c in cs) != want:
                return P.fail("C17/cancel_workflow/CancelStage_set_differs_from_unfinished_stages", {**info, "want": want})
            if len(cw) != 1:
                return P.fail("C17/cancel_workflow/CompleteWorkflow_not_queued_once", info)
            if processed != ["41"]:
                return P.fail("C17/cancel_workflow/not_marked_processed", info)
            return True
        finally:
            w.close()


PLAN = [("run_task_checks_cancel", "quick", 280), ("cancel_workflow_step", "quick", 280), ("cancel_workflow_step_two", "thorough", 2400)]
META = {
    "functions": ["src/stabilize/handlers/run_task/handler.py:RunTaskHandler.handle", "src/stabilize/handlers/run_task/error.py:handle_cancellation",
                  "src/stabilize/handlers/workflow_control.py:CancelWorkflowHandler", "src/stabilize/persistence/sqlite/operations.py:cancel_execution"],
    "bounds": ["is_canceled x every workflow status x every task status (288 states); CancelWorkflow from every workflow status x every status of the first stage (quick) and of both stages (thorough)"],
    "stubs": ["SymDB instead of SQLite (validated differentially on every run)", "task executor inline", "ids/clock stubs"],
    "assumptions": [],
}
