"""C02 - redelivery and reordering never change the result or repeat finished work (S1)."""
from __future__ import annotations

from vf import scenarios as sc

M = ("C02",)


def sched_diamond(c0: int, c1: int, c2: int, c3: int, c4: int, c5: int) -> bool:
    """
    post: _
    """
    return sc.schedule_run("C02", "diamond", [c0, c1, c2, c3, c4, c5], monitors=M)


PLAN = [
    ("sched_diamond", "quick", 200),
]
META = {}
