"""C04 - a stage starts exactly once even when workers race (S2 over SymDB).

1. ``claim_two``: the claim compare-and-swap (``AtomicTransaction.store_stage(expected_phase=...)``
   inside ``store.transaction()``) for two workers in every interleaving the writer lock allows,
   symbolic row version and status.
2. ``start_vs_*``: the real ``StartStageHandler.handle`` of worker A with another worker's complete
   handler run nested between A's read of the stage and A's first write (SymDB pre-statement
   hook): a duplicate StartStage, a persistent signal being buffered, an upstream completion that
   updates the join bookkeeping.  Observables: StartTask messages inserted, durable stage status.
"""
from __future__ import annotations

import datetime as _dt
import json

from harness.s2util import ST, row_of, second_store, set_cells
from vf import hx, symdb, world2

from stabilize import SqliteQueue  # noqa: E402
from stabilize.errors import ConcurrencyError  # noqa: E402
from stabilize.handlers import CompleteStageHandler, SignalStageHandler, StartStageHandler  # noqa: E402
from stabilize.models.stage import JoinType, StageExecution  # noqa: E402
from stabilize.models.status import WorkflowStatus  # noqa: E402
from stabilize.models.task import TaskExecution  # noqa: E402
from stabilize.models.workflow import Workflow  # noqa: E402
from stabilize.queue.messages import CompleteStage, SignalStage, StartStage  # noqa: E402

_CREATED = _dt.datetime(2024, 1, 1)


def claim_two(v0: int, rs: int, order: int) -> bool:
    """
    pre: 0 <= v0 <= 1000
    post: _
    """
    with hx.Path("claim_two") as P:
        o = hx.pick(order, 4)
        status = ST[hx.pick(rs, 12)]
        w = world2.SWorld(name="claim")
        try:
            from harness.s2util import seed_stage

            wf, st = seed_stage(w, ntasks=1)
            set_cells(w, "stage_executions", st.id, version=v0, status=status.name)
            stores = [w.store, second_store(w)]
            local: list = [None, None]
            ok = [None, None]

            def read(i: int) -> None:
                local[i] = stores[i].retrieve_stage(st.id)

            def claim(i: int) -> None:
                s = local[i]
                s.status = WorkflowStatus.RUNNING
                s.start_time = 5
                try:
                    with stores[i].transaction(w.queue) as t:
                        t.store_stage(s, expected_phase="NOT_STARTED")
                    ok[i] = True
                except ConcurrencyError:
                    ok[i] = False

            plan = [[("r", 0), ("r", 1), ("c", 1), ("c", 0)], [("r", 0), ("r", 1), ("c", 0), ("c", 1)],
                    [("r", 0), ("c", 0), ("r", 1), ("c", 1)], [("r", 1), ("c", 1), ("r", 0), ("c", 0)]][o]
            for kind, i in plan:
                (read if kind == "r" else claim)(i)
            row = row_of(w, "stage_executions", st.id)
            with hx.native():
                P.reached((o, status.name, tuple(ok)))
            wins = (1 if ok[0] else 0) + (1 if ok[1] else 0)
            if wins > 1:
                return P.fail("C04/claim/two_claimants_both_succeeded", {"order": o, "status": status.name})
            if status == WorkflowStatus.NOT_STARTED:
                if wins != 1:
                    return P.fail("C04/claim/nobody_could_claim_a_startable_stage", {"order": o})
                if row["status"] != "RUNNING" or row["version"] != v0 + 1:
                    return P.fail("C04/claim/row_not_claimed")
            else:
                if wins != 0:
                    return P.fail("C04/claim/claimed_a_stage_that_was_not_NOT_STARTED", {"status": status.name})
                if row["status"] != status.name or row["version"] != v0:
                    return P.fail("C04/claim/losing_claim_changed_the_row")
            return True
        finally:
            w.close()


def _join_world(join: JoinType, v0, threshold: int = 0):
    w = world2.SWorld(name="race")
    mk = lambda ref, deps, **kw: StageExecution(ref_id=ref, name=ref, type="x", requisite_stage_ref_ids=set(deps),  # noqa: E731
                                                tasks=[TaskExecution.create(name="t", implementing_class="x", stage_start=True, stage_end=True)], **kw)
    r = mk("r", [], status=WorkflowStatus.SUCCEEDED)
    u0 = mk("u0", ["r"], status=WorkflowStatus.SUCCEEDED)
    u1 = mk("u1", ["r"], status=WorkflowStatus.SUCCEEDED)
    j = mk("j", ["u0", "u1"], join_type=join, join_threshold=threshold)
    z = mk("z", ["j"])
    wf = Workflow(application="a", name="w", stages=[r, u0, u1, j, z], status=WorkflowStatus.RUNNING)
    w.store.store(wf)
    set_cells(w, "stage_executions", j.id, version=v0)
    return w, wf, j, u1


def _worker_b(w):
    sb = second_store(w)
    qb = SqliteQueue(w.url)
    cb = sb._get_connection()
    qb._get_connection = lambda: cb  # type: ignore[method-assign]
    return sb, qb


def _msgs(w, mtype: str, stage_id: str | None = None) -> list[dict]:
    out = []
    for r in w.table("queue_messages"):
        if r["message_type"] != mtype:
            continue
        p = r["payload"]
        d = p.obj if isinstance(p, symdb.JText) else json.loads(p)
        if stage_id is None or d.get("stage_id") == stage_id:
            out.append(d)
    return out


def _race(join_k, v0, other: int, name: str, prop: str = "C04") -> bool:
    """A = StartStage(j).  B (complete handler of another worker) runs between A's read and A's
    first write: other = 0 duplicate StartStage(j), 1 persistent SignalStage(j), 2 nothing (A alone)."""
    with hx.Path(name) as P:
        join = [JoinType.AND, JoinType.DISCRIMINATOR, JoinType.N_OF_M][hx.pick(join_k, 3)]
        w, wf, j, u1 = _join_world(join, v0, threshold=1)
        try:
            sb, qb = _worker_b(w)
            ha = StartStageHandler(w.queue, w.store)
            state = {"done": False}

            def run_b() -> None:
                if other == 0:
                    m = StartStage(execution_id=wf.id, stage_id=j.id, created_at=_CREATED)
                    m.message_id = "902"
                    StartStageHandler(qb, sb).handle(m)
                elif other == 1:
                    m2 = SignalStage(execution_id=wf.id, stage_id=j.id, signal_name="go", signal_data={"v": 1}, persistent=True, created_at=_CREATED)
                    m2.message_id = "903"
                    SignalStageHandler(qb, sb).handle(m2)

            def pre(conn, st) -> None:
                if not state["done"] and st[0] in ("update", "insert") and st[1 if st[0] == "update" else 2] in ("stage_executions", "stage_claims"):
                    state["done"] = True
                    run_b()

            if other != 2:
                w.conn().pre_statement = pre
            ma = StartStage(execution_id=wf.id, stage_id=j.id, created_at=_CREATED)
            ma.message_id = "901"
            ha.handle(ma)
            w.conn().pre_statement = None
            row = row_of(w, "stage_executions", j.id)
            t_id = j.tasks[0].id
            start_tasks = [d for d in _msgs(w, "StartTask") if d.get("task_id") == t_id]
            restart = _msgs(w, "StartStage", j.id)
            with hx.native():
                P.reached((join.name, other, row["status"], len(start_tasks), len(restart)))
                info = {"join": join.name, "other_worker": ["duplicate StartStage", "persistent SignalStage", "none"][other],
                        "stage": row["status"], "StartTask_messages": len(start_tasks), "StartStage_requeued": len(restart)}
            if len(start_tasks) > 1:
                return P.fail("C04/race/stage_planned_twice/%s" % info["other_worker"].replace(" ", "_"), info)
            if row["status"] == "RUNNING" and len(start_tasks) == 1:
                ctx = row["context"]
                ctx = ctx.obj if isinstance(ctx, symdb.JText) else json.loads(ctx)
                if join in (JoinType.DISCRIMINATOR, JoinType.N_OF_M) and not ctx.get("_join_fired"):
                    return P.fail("C04/race/join_started_without_fired_flag", info)
                if other == 1 and ctx.get("_buffered_signals") != [{"signal_name": "go", "signal_data": {"v": 1}}]:
                    return P.fail("C18/race/persistent_signal_lost_while_stage_started", {**info, "buffered": ctx.get("_buffered_signals")})
                return True
            if row["status"] == "NOT_STARTED" and len(restart) >= 1:
                return True  # start deferred, a StartStage is queued again
            return P.fail("%s/race/start_lost/%s/%s" % (prop, info["other_worker"].replace(" ", "_"), row["status"]), info)
        finally:
            w.close()


def start_alone(join: int, v0: int) -> bool:
    """
    pre: 0 <= v0 <= 1000
    post: _
    """
    return _race(join, v0, 2, "start_alone")


def start_vs_start(join: int, v0: int) -> bool:
    """
    pre: 0 <= v0 <= 1000
    post: _
    """
    return _race(join, v0, 0, "start_vs_start")


def start_vs_upstream_completion(v0: int, join: int) -> bool:
    """
    pre: 0 <= v0 <= 1000
    post: _
    """
    # u0 SUCCEEDED (its StartStage(j) is A), u1 still RUNNING with its task done: B = CompleteStage(u1),
    # whose _update_join_tracking writes j's row (first-of / quorum bookkeeping) between A's read and claim.
    with hx.Path("start_vs_upstream_completion") as P:
        jt = [JoinType.DISCRIMINATOR, JoinType.N_OF_M][hx.pick(join, 2)]
        w, wf, j, u1 = _join_world(jt, v0, threshold=1)
        try:
            set_cells(w, "stage_executions", u1.id, status="RUNNING")
            with hx.native():
                for r in w.db.tables["task_executions"]:
                    if r["stage_id"] == u1.id:
                        r["status"] = "SUCCEEDED"
            sb, qb = _worker_b(w)
            state = {"done": False}

            def pre(conn, st) -> None:
                if not state["done"] and st[0] == "update" and st[1] == "stage_executions":
                    state["done"] = True
                    m = CompleteStage(execution_id=wf.id, stage_id=u1.id, created_at=_CREATED)
                    m.message_id = "905"
                    CompleteStageHandler(qb, sb).handle(m)

            w.conn().pre_statement = pre
            ma = StartStage(execution_id=wf.id, stage_id=j.id, created_at=_CREATED)
            ma.message_id = "901"
            StartStageHandler(w.queue, w.store).handle(ma)
            w.conn().pre_statement = None
            # drain the StartStage(j) that u1's completion pushed, on worker B
            for d in _msgs(w, "StartStage", j.id):
                m3 = StartStage(execution_id=wf.id, stage_id=j.id, created_at=_CREATED)
                m3.message_id = "906"
                StartStageHandler(qb, sb).handle(m3)
            row = row_of(w, "stage_executions", j.id)
            t_id = j.tasks[0].id
            start_tasks = [d for d in _msgs(w, "StartTask") if d.get("task_id") == t_id]
            with hx.native():
                P.reached((jt.name, row["status"], len(start_tasks)))
                info = {"join": jt.name, "stage": row["status"], "StartTask_messages": len(start_tasks)}
            if len(start_tasks) > 1:
                return P.fail("C04/race/stage_planned_twice/upstream_completion", info)
            if row["status"] == "RUNNING" and len(start_tasks) == 1:
                return True
            return P.fail("C04/race/start_lost/upstream_completion/%s" % row["status"], info)
        finally:
            w.close()


class _VfBuilder:
    """Stage definition builder whose tasks are created at plan time (tasks=[] in the definition)."""


def _register_builder() -> None:
    from stabilize.stages.builder import StageDefinitionBuilder, get_default_factory

    class VfBuilt(StageDefinitionBuilder):
        @property
        def type(self) -> str:
            return "vf_built"

        def build_tasks(self, stage):
            return [TaskExecution.create(name="built", implementing_class="x", stage_start=True, stage_end=True)]

    get_default_factory().register(VfBuilt())


def _nested_any(join_k, v0, k, other: int, built: bool, name: str, prop: str = "C04") -> bool:
    """A = StartStage(j); worker B's whole handler runs before A's k-th statement (k symbolic: every
    statement position outside an open write transaction).  other: 0 duplicate StartStage(j),
    1 persistent SignalStage(j).  built: j's tasks are created at plan time by a builder."""
    from harness.s2util import nest_at

    with hx.Path(name) as P:
        join = [JoinType.AND, JoinType.DISCRIMINATOR, JoinType.N_OF_M][hx.pick(join_k, 3)]
        w, wf, j, u1 = _join_world(join, v0, threshold=1)
        try:
            if built:
                _register_builder()
                with hx.native():
                    w.db.tables["task_executions"][:] = [r for r in w.db.tables["task_executions"] if r["stage_id"] != j.id]
                    for r in w.db.tables["stage_executions"]:
                        if r["id"] == j.id:
                            r["type"] = "vf_built"
            sb, qb = _worker_b(w)

            def run_b() -> None:
                if other == 0:
                    m = StartStage(execution_id=wf.id, stage_id=j.id, created_at=_CREATED)
                    m.message_id = "902"
                    StartStageHandler(qb, sb).handle(m)
                else:
                    m2 = SignalStage(execution_id=wf.id, stage_id=j.id, signal_name="go", signal_data={"v": 1}, persistent=True, created_at=_CREATED)
                    m2.message_id = "903"
                    SignalStageHandler(qb, sb).handle(m2)

            st = nest_at(w.conn(), k, run_b)
            ma = StartStage(execution_id=wf.id, stage_id=j.id, created_at=_CREATED)
            ma.message_id = "901"
            StartStageHandler(w.queue, w.store).handle(ma)
            w.conn().pre_statement = None
            if not st["done"]:
                run_b()  # k beyond A's last statement: B simply runs after A
            # a StartStage that was re-queued (deferred start / re-plan request) is delivered later
            for n_re, _d in enumerate(_msgs(w, "StartStage", j.id)[:2]):
                m3 = StartStage(execution_id=wf.id, stage_id=j.id, created_at=_CREATED, retry_count=1)
                m3.message_id = str(950 + n_re)
                with hx.native():
                    w.db.tables["queue_messages"][:] = [r for r in w.db.tables["queue_messages"]
                                                        if not (r["message_type"] == "StartStage" and (r["payload"].obj if isinstance(r["payload"], symdb.JText) else json.loads(r["payload"])).get("stage_id") == j.id)]
                StartStageHandler(qb, sb).handle(m3)
            row = row_of(w, "stage_executions", j.id)
            tasks = [r for r in w.table("task_executions") if r["stage_id"] == j.id]
            start_tasks = [d for d in _msgs(w, "StartTask") if d.get("stage_id") == j.id]
            restart = _msgs(w, "StartStage", j.id)
            with hx.native():
                P.reached((join.name, other, built, st["at"], row["status"], len(start_tasks)))
                info = {"join": join.name, "other_worker": ["duplicate StartStage", "persistent SignalStage"][other], "tasks_built_at_plan_time": built,
                        "preempted_before_statement": st["at"], "stage": row["status"], "tasks": len(tasks), "StartTask_messages": len(start_tasks), "StartStage_requeued": len(restart)}
            tag = info["other_worker"].replace(" ", "_") + ("/built" if built else "")
            if len(start_tasks) > 1 or len(tasks) > 1:
                return P.fail("%s/race/stage_planned_twice/%s" % (prop, tag), info)
            if row["status"] == "RUNNING" and len(start_tasks) == 1:
                return True
            if row["status"] == "NOT_STARTED" and len(restart) >= 1:
                return True
            return P.fail("%s/race/start_lost/%s/%s" % (prop, tag, row["status"]), info)
        finally:
            w.close()


def start_vs_start_anywhere_and(v0: int, k: int) -> bool:
    """
    pre: 0 <= v0 <= 1000 and 1 <= k <= 60
    post: _
    """
    return _nested_any(0, v0, k, 0, False, "start_vs_start_anywhere_and")


def start_vs_start_anywhere_firstof(v0: int, k: int) -> bool:
    """
    pre: 0 <= v0 <= 1000 and 1 <= k <= 60
    post: _
    """
    return _nested_any(1, v0, k, 0, False, "start_vs_start_anywhere_firstof")


def start_vs_start_anywhere_quorum(v0: int, k: int) -> bool:
    """
    pre: 0 <= v0 <= 1000 and 1 <= k <= 60
    post: _
    """
    return _nested_any(2, v0, k, 0, False, "start_vs_start_anywhere_quorum")


def start_vs_start_anywhere_built_and(v0: int, k: int) -> bool:
    """
    pre: 0 <= v0 <= 1000 and 1 <= k <= 60
    post: _
    """
    return _nested_any(0, v0, k, 0, True, "start_vs_start_anywhere_built_and")


def start_vs_start_anywhere_built_firstof(v0: int, k: int) -> bool:
    """
    pre: 0 <= v0 <= 1000 and 1 <= k <= 60
    post: _
    """
    return _nested_any(1, v0, k, 0, True, "start_vs_start_anywhere_built_firstof")


def start_vs_start_anywhere_built_quorum(v0: int, k: int) -> bool:
    """
    pre: 0 <= v0 <= 1000 and 1 <= k <= 60
    post: _
    """
    return _nested_any(2, v0, k, 0, True, "start_vs_start_anywhere_built_quorum")


PLAN = [
    ("claim_two", "quick", 280),
    ("start_vs_start_anywhere_and", "quick", 280),
    ("start_vs_start_anywhere_firstof", "quick", 280),
    ("start_vs_start_anywhere_quorum", "quick", 280),
    ("start_vs_start_anywhere_built_and", "quick", 280),
    ("start_vs_start_anywhere_built_firstof", "quick", 280),
    ("start_vs_start_anywhere_built_quorum", "quick", 280),
    ("start_alone", "quick", 120),
    ("start_vs_start", "quick", 200),
    ("start_vs_upstream_completion", "quick", 200),
]

META = {
    "functions": ["src/stabilize/persistence/sqlite/transaction.py:AtomicTransaction.store_stage(expected_phase)", "src/stabilize/handlers/start_stage/handler.py:StartStageHandler.handle/_start_if_ready",
                  "src/stabilize/handlers/signal_stage.py:SignalStageHandler", "src/stabilize/handlers/complete_stage/split_logic.py:_update_join_tracking",
                  "src/stabilize/handlers/complete_stage/handler.py:CompleteStageHandler", "src/stabilize/handlers/start_stage/planner.py:_plan_stage"],
    "bounds": ["claim: two workers, 4 interleavings, durable status all 12, version symbolic in [0,1000]",
               "handler race: join stage with two finished upstreams (AND / first-of / 1-of-2), tasks pre-defined or built at plan time; the other worker's whole handler runs before A's k-th statement for every k (one pre-emption at statement granularity, positions inside A's open write transaction excluded as SQLite would block B); version symbolic"],
    "stubs": ["SymDB instead of SQLite (validated differentially on every run)", "ids/clock stubs as everywhere"],
    "assumptions": ["statement-level interleavings other than 'B completely inside A's read-to-write window' are covered only by the thread-scheduler harness when present"],
}
