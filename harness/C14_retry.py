"""C14 (function level) - the retry arithmetic and its queue round trip (S2 over SymDB).

The real ``handle_exception`` -> ``TransactionHelper.execute_atomic`` -> ``AtomicTransaction.push_message``
-> ``SqliteQueue.poll_one`` -> ``deserialize_message`` chain runs under CrossHair with the message's
attempt counter and its limit symbolic.
"""
from __future__ import annotations

import datetime as _dt
import json
from datetime import timedelta

from harness.s2util import row_of, seed_stage, set_cells
from vf import hx, symdb, world2

from stabilize.errors import TransientError  # noqa: E402
from stabilize.handlers.base import StabilizeHandler  # noqa: E402
from stabilize.handlers.run_task.error import handle_exception  # noqa: E402
from stabilize.models.status import WorkflowStatus  # noqa: E402
from stabilize.persistence.transaction import TransactionHelper  # noqa: E402
from stabilize.queue.messages import RunTask  # noqa: E402
from stabilize.resilience.config import HandlerConfig  # noqa: E402

_CREATED = _dt.datetime(2024, 1, 1)


class _H(StabilizeHandler):
    @property
    def message_type(self):  # pragma: no cover
        return RunTask

    def handle(self, message) -> None:  # pragma: no cover
        pass


def retry_budget(a: int, m: int, with_ctx: bool, transient: bool) -> bool:
    """
    pre: 0 <= a <= 40 and 1 <= m <= 40
    post: _
    """
    with hx.Path("retry_budget") as P:
        wc, tr = hx.decide(with_ctx), hx.decide(transient)
        w = world2.SWorld(name="retry")
        try:
            wf, st = seed_stage(w, ntasks=1, status=WorkflowStatus.RUNNING)
            t = st.tasks[0]
            set_cells(w, "task_executions", t.id, status="RUNNING")
            t.status = WorkflowStatus.RUNNING
            msg = RunTask(execution_id=wf.id, stage_id=st.id, task_id=t.id, task_type="x", created_at=_CREATED)
            msg.message_id = "77"
            msg.attempts = a
            msg.max_attempts = m
            exc = TransientError("boom", context_update={"progress": 5} if wc else None) if tr else ValueError("permanent")
            h = _H(w.queue, w.store, handler_config=HandlerConfig(concurrency_max_retries=0))
            handle_exception(st, t, None, msg, exc, w.store, TransactionHelper(w.store, w.queue),
                             lambda *args: timedelta(seconds=2), h.retry_on_concurrency_error)  # type: ignore[arg-type]
            rows = w.table("queue_messages")
            kinds = [r["message_type"] for r in rows]
            srow = row_of(w, "stage_executions", st.id)
            ctx = srow["context"]
            ctx = ctx.obj if isinstance(ctx, symdb.JText) else json.loads(ctx)
            should_retry = tr and bool(a + 1 < m)
            with hx.native():
                P.reached((wc, tr, should_retry))
                info = {"transient": tr, "with_context_update": wc, "retry_expected": should_retry, "queued": kinds}
            if should_retry:
                if kinds != ["RunTask"]:
                    return P.fail("C14/retry_budget/transient_error_below_limit_not_retried", info)
                if wc and ctx.get("progress") != 5:
                    return P.fail("C14/retry_budget/saved_progress_not_stored_with_the_retry", info)
                # the retry must come back with a larger attempt count, or the budget is never consumed
                symdb.CLOCK.now = symdb.CLOCK.now + 10_000
                back = w.queue.poll_one()
                if back is None:
                    return P.fail("C14/retry_budget/retry_message_not_deliverable_after_backoff", info)
                if not (back.attempts > a):
                    return P.fail("C14/retry_budget/attempt_count_not_carried_through_the_queue", info)
            else:
                if kinds != ["CompleteTask"]:
                    return P.fail("C14/retry_budget/%s" % ("retried_at_or_beyond_limit" if tr else "permanent_error_retried"), info)
                p = rows[0]["payload"]
                d = p.obj if isinstance(p, symdb.JText) else json.loads(p)
                if d.get("status") != "TERMINAL":
                    return P.fail("C14/retry_budget/exhausted_task_not_marked_terminal", {**info, "status": d.get("status")})
                if "exception" not in ctx:
                    return P.fail("C14/retry_budget/error_not_recorded_on_stage", info)
            return True
        finally:
            w.close()


PLAN = [("retry_budget", "quick", 280)]
META = {
    "functions": ["src/stabilize/handlers/run_task/error.py:handle_exception/_handle_transient_retry/_mark_terminal", "src/stabilize/persistence/transaction.py:TransactionHelper.execute_atomic(_critical)",
                  "src/stabilize/persistence/sqlite/transaction.py:AtomicTransaction.push_message", "src/stabilize/queue/sqlite/queue.py:poll_one", "src/stabilize/queue/sqlite/serialization.py:deserialize_message"],
    "bounds": ["message.attempts in [0,40], max_attempts in [1,40] (symbolic), transient / permanent error, with / without context_update"],
    "stubs": ["SymDB instead of SQLite (validated differentially on every run)", "backoff function replaced by a constant", "ids/clock stubs"],
    "assumptions": [],
}
