"""C14 (function level) - the retry arithmetic and its queue round trip (S2 over SymDB).

The real ``handle_exception`` -> ``TransactionHelper.execute_atomic`` -> ``AtomicTransaction.push_message``
-> ``SqliteQueue.poll_one`` -> ``deserialize_message`` chain runs under CrossHair for a symbolic number of
consecutive failures; the oracle does not say which field carries the budget.
"""
from __future__ import annotations

import datetime as _dt
import json
from datetime import timedelta

from harness.s2util import row_of, seed_stage, set_cells
from vf import hx, symdb, world2

from stabilize.errors import TransientError  # noqa: E402
from stabilize.handlers.base import StabilizeHandler  # noqa: E402
from stabilize.handlers.run_task.error import handle_exception  # noqa: E402
from stabilize.models.status import WorkflowStatus  # noqa: E402
from stabilize.persistence.transaction import TransactionHelper  # noqa: E402
from stabilize.queue.messages import RunTask  # noqa: E402
from stabilize.resilience.config import HandlerConfig  # noqa: E402

_CREATED = _dt.datetime(2024, 1, 1)


class _H(StabilizeHandler):
    @property
    def message_type(self):  # pragma: no cover
        return RunTask

    def handle(self, message) -> None:  # pragma: no cover
        pass


LIMIT = 10  # Message.max_attempts default: the documented maximum number of attempts


def retry_budget(n: int, with_ctx: bool, last_permanent: bool) -> bool:
    """
    pre: 1 <= n <= 13
    post: _
    """
    # A task's RunTask message as StartTask creates it; the task fails n times in a row with a
    # transient error (n symbolic).  After every failure the real error path runs and the retry
    # message is taken back out of the real queue (so whatever carries the budget has to survive
    # push_message -> row -> poll_one -> deserialize_message).  Representation-agnostic oracle:
    # failure i < LIMIT is retried exactly once, failure LIMIT ends the task TERMINAL, and no
    # retry is ever granted beyond it.
    with hx.Path("retry_budget") as P:
        wc, perm = hx.decide(with_ctx), hx.decide(last_permanent)
        w = world2.SWorld(name="retry")
        try:
            wf, st = seed_stage(w, ntasks=1, status=WorkflowStatus.RUNNING)
            t = st.tasks[0]
            set_cells(w, "task_executions", t.id, status="RUNNING")
            t.status = WorkflowStatus.RUNNING
            w.queue.push(RunTask(execution_id=wf.id, stage_id=st.id, task_id=t.id, task_type="x", created_at=_CREATED))
            h = _H(w.queue, w.store, handler_config=HandlerConfig(concurrency_max_retries=0))
            rounds = 0
            outcome = None
            for i in range(1, 15):
                symdb.CLOCK.now = symdb.CLOCK.now + 10_000
                msg = w.queue.poll_one()
                if msg is None:
                    outcome = "retry_message_not_deliverable_after_backoff"
                    break
                last = hx.decide_eq(n, i)
                stage = w.store.retrieve_stage(st.id)
                task = stage.tasks[0]
                if wc and i > 1 and stage.context.get("progress") != i - 1:
                    return P.fail("C14/retry_budget/saved_progress_not_seen_by_next_attempt", {"attempt": i, "progress": stage.context.get("progress")})
                exc = ValueError("permanent") if (last and perm) else TransientError("boom", context_update={"progress": i} if wc else None)
                handle_exception(stage, task, None, msg, exc, w.store, TransactionHelper(w.store, w.queue),
                                 lambda *args: timedelta(seconds=2), h.retry_on_concurrency_error)  # type: ignore[arg-type]
                w.queue.ack(msg)
                rounds = i
                kinds = sorted(r["message_type"] for r in w.table("queue_messages"))
                if kinds == ["CompleteTask"]:
                    outcome = "terminal"
                    break
                if kinds != ["RunTask"]:
                    outcome = "queued:" + ",".join(kinds)
                    break
                if last:
                    outcome = "retried"
                    break
            with hx.native():
                P.reached((wc, perm, rounds, outcome))
                info = {"failures": rounds, "with_context_update": wc, "last_error_permanent": perm, "outcome": outcome, "limit": LIMIT}
            if outcome not in ("terminal", "retried"):
                return P.fail("C14/retry_budget/%s" % outcome, info)
            if outcome == "retried" and rounds >= LIMIT:
                return P.fail("C14/retry_budget/retried_at_or_beyond_limit", info)
            if outcome == "retried" and perm:
                return P.fail("C14/retry_budget/permanent_error_retried", info)
            if outcome == "terminal":
                if not perm and rounds < LIMIT:
                    return P.fail("C14/retry_budget/transient_error_below_limit_not_retried", info)
                if not perm and rounds > LIMIT:
                    return P.fail("C14/retry_budget/retried_at_or_beyond_limit", info)
                row = w.table("queue_messages")[0]["payload"]
                d = row.obj if isinstance(row, symdb.JText) else json.loads(row)
                if d.get("status") != "TERMINAL":
                    return P.fail("C14/retry_budget/exhausted_task_not_marked_terminal", {**info, "status": d.get("status")})
                srow = row_of(w, "stage_executions", st.id)
                ctx = srow["context"]
                ctx = ctx.obj if isinstance(ctx, symdb.JText) else json.loads(ctx)
                if "exception" not in ctx:
                    return P.fail("C14/retry_budget/error_not_recorded_on_stage", info)
            return True
        finally:
            w.close()


def retry_under_contention(m: int) -> bool:
    """
    pre: 0 <= m <= 7
    post: _
    """
    # The task fails once with a transient error that carries progress.  Another writer bumps the stage's
    # version (an unrelated context key) after each of the error path's first m reads of the stage
    # (m symbolic: no contention ... more conflicts than every retry budget of the error path).
    # Whatever happens - saved and retried, or the conflict escapes and the message will be redelivered -
    # a retry message is never queued without the progress that belongs to it.
    with hx.Path("retry_under_contention") as P:
        w = world2.SWorld(name="retryc")
        try:
            wf, st = seed_stage(w, ntasks=1, status=WorkflowStatus.RUNNING)
            t = st.tasks[0]
            set_cells(w, "task_executions", t.id, status="RUNNING")
            w.queue.push(RunTask(execution_id=wf.id, stage_id=st.id, task_id=t.id, task_type="x", created_at=_CREATED))
            h = _H(w.queue, w.store, handler_config=HandlerConfig())
            symdb.CLOCK.now = symdb.CLOCK.now + 10_000
            msg = w.queue.poll_one()
            stage = w.store.retrieve_stage(st.id)
            task = stage.tasks[0]
            bumps = {"n": 0, "limit": 0}
            for k in range(1, 8):
                if hx.decide_eq(m, k):
                    bumps["limit"] = k
                    break
            real_retrieve = w.store.retrieve_stage

            def contended_retrieve(stage_id):  # type: ignore[no-untyped-def]
                got = real_retrieve(stage_id)
                if bumps["n"] < bumps["limit"]:
                    bumps["n"] += 1
                    with hx.native():
                        r = next(r for r in w.db.tables["stage_executions"] if r["id"] == stage_id)
                        r["version"] = r["version"] + 1  # the other writer's committed save (its payload does not matter here)
                return got

            w.store.retrieve_stage = contended_retrieve  # type: ignore[method-assign]
            escaped = None
            try:
                handle_exception(stage, task, None, msg, TransientError("boom", context_update={"progress": 1}), w.store, TransactionHelper(w.store, w.queue),
                                 lambda *args: timedelta(seconds=2), h.retry_on_concurrency_error)  # type: ignore[arg-type]
            except Exception as e:  # the conflict escapes: the processor reschedules the same message
                escaped = type(e).__name__
            finally:
                w.store.retrieve_stage = real_retrieve  # type: ignore[method-assign]
            with hx.native():
                rows = [r for r in w.table("queue_messages") if r["id"] != msg_row_id(w, msg)]
                kinds = sorted(r["message_type"] for r in rows)
                srow = row_of(w, "stage_executions", st.id)
                ctx = srow["context"]
                ctx = ctx.obj if isinstance(ctx, symdb.JText) else json.loads(ctx)
                P.reached((bumps["limit"], escaped, tuple(kinds)))
                info = {"conflicts": bumps["limit"], "escaped": escaped, "queued": kinds, "durable_progress": ctx.get("progress")}
            if "RunTask" in kinds and ctx.get("progress") != 1:
                return P.fail("C14/contention/retry_queued_without_its_progress", info)
            if escaped is None and "RunTask" not in kinds and "CompleteTask" not in kinds:
                return P.fail("C14/contention/failure_swallowed_nothing_queued", info)
            return True
        finally:
            w.close()


def msg_row_id(w, msg) -> int:
    return int(msg.message_id)


PLAN = [("retry_budget", "quick", 280), ("retry_under_contention", "quick", 200)]
META = {
    "functions": ["src/stabilize/handlers/run_task/error.py:handle_exception/_handle_transient_retry/_mark_terminal", "src/stabilize/persistence/transaction.py:TransactionHelper.execute_atomic(_critical)",
                  "src/stabilize/persistence/sqlite/transaction.py:AtomicTransaction.push_message", "src/stabilize/queue/sqlite/queue.py:poll_one", "src/stabilize/queue/sqlite/serialization.py:deserialize_message"],
    "bounds": ["1..13 consecutive failures (symbolic), the last one transient or permanent, with / without context_update; every retry message goes through the real push / poll_one / deserialize round trip"],
    "stubs": ["SymDB instead of SQLite (validated differentially on every run)", "backoff function replaced by a constant", "ids/clock stubs"],
    "assumptions": [],
}
