"""C18 - two workers interleaved: a persistent signal handled while the stage's StartStage is between
its read and its claim (S2 over SymDB; machinery shared with C04_claim)."""
from __future__ import annotations

from harness.C04_claim import META as _M
from harness.C04_claim import _race


def start_vs_signal(join: int, v0: int) -> bool:
    """
    pre: 0 <= v0 <= 1000
    post: _
    """
    return _race(join, v0, 1, "start_vs_signal", prop="C18")


def start_vs_signal_anywhere_and(v0: int, k: int) -> bool:
    """
    pre: 0 <= v0 <= 1000 and 1 <= k <= 60
    post: _
    """
    from harness.C04_claim import _nested_any

    return _nested_any(0, v0, k, 1, False, "start_vs_signal_anywhere_and", prop="C18")


def start_vs_signal_anywhere_firstof(v0: int, k: int) -> bool:
    """
    pre: 0 <= v0 <= 1000 and 1 <= k <= 60
    post: _
    """
    from harness.C04_claim import _nested_any

    return _nested_any(1, v0, k, 1, False, "start_vs_signal_anywhere_firstof", prop="C18")


def start_vs_signal_anywhere_quorum(v0: int, k: int) -> bool:
    """
    pre: 0 <= v0 <= 1000 and 1 <= k <= 60
    post: _
    """
    from harness.C04_claim import _nested_any

    return _nested_any(2, v0, k, 1, False, "start_vs_signal_anywhere_quorum", prop="C18")


PLAN = [("start_vs_signal", "quick", 200)] + [("start_vs_signal_anywhere_%s" % jn, "quick", 280) for jn in ("and", "firstof", "quorum")]
META = dict(_M)
