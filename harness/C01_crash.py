"""C01 - crash anywhere, restart with recovery: same outcome as an uninterrupted run (S1)."""
from __future__ import annotations

from vf import scenarios as sc


def crash_chain2(k1: int) -> bool:
    """
    pre: k1 >= 1
    post: _
    """
    return sc.crash_run("chain2", k1)


PLAN = [
    ("crash_chain2", "quick", 120),
]
META = {}
