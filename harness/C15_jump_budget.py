"""C15 (handler level) - the jump budget: one step of the real JumpToStageHandler over SymDB (S2).

``_jump_count`` of the source stage and ``_max_jumps`` (workflow level, stage level or absent) are
symbolic integers carried through the JSON context columns by the value-carrying json stub.
"""
from __future__ import annotations

import datetime as _dt

from vf import hx, symdb, world2

world2.install(json_stub=True)

from stabilize.handlers import JumpToStageHandler  # noqa: E402
from stabilize.models.stage import StageExecution  # noqa: E402
from stabilize.models.status import WorkflowStatus  # noqa: E402
from stabilize.models.task import TaskExecution  # noqa: E402
from stabilize.models.workflow import Workflow  # noqa: E402
from stabilize.queue.messages import JumpToStage  # noqa: E402

_CREATED = _dt.datetime(2024, 1, 1)
DEFAULT_MAX = 10  # documented default


def _payloads(w, mtype: str) -> list[dict]:
    return [r["payload"].obj for r in w.table("queue_messages") if r["message_type"] == mtype]


def jump_budget(c: int, m: int, where: int, self_loop: bool) -> bool:
    """
    pre: 0 <= c <= 30 and 0 <= m <= 30
    post: _
    """
    with hx.Path("jump_budget") as P:
        wh = hx.pick(where, 3)  # 0: no _max_jumps anywhere, 1: workflow context, 2: source stage context
        sl = hx.decide(self_loop)
        w = world2.SWorld(name="jump", json_stub=True)
        try:
            mk = lambda ref, deps, st, ctx: StageExecution(ref_id=ref, name=ref, type="x", status=st, context=ctx, requisite_stage_ref_ids=set(deps),  # noqa: E731
                                                           tasks=[TaskExecution.create(name="t", implementing_class="x", stage_start=True, stage_end=True)])
            sctx = {"_jump_count": c}
            if wh == 2:
                sctx["_max_jumps"] = m
            if sl:
                x = mk("x", [], WorkflowStatus.RUNNING, sctx)
                stages = [x, mk("z", ["x"], WorkflowStatus.NOT_STARTED, {})]
                target = x
            else:
                t = mk("t", [], WorkflowStatus.SUCCEEDED, {"old": 1})
                x = mk("x", ["t"], WorkflowStatus.RUNNING, sctx)
                stages = [t, x, mk("z", ["x"], WorkflowStatus.NOT_STARTED, {})]
                target = t
            x.tasks[0].status = WorkflowStatus.RUNNING
            wf = Workflow(application="a", name="w", stages=stages, status=WorkflowStatus.RUNNING, context=({"_max_jumps": m} if wh == 1 else {}))
            w.store.store(wf)
            msg = JumpToStage(execution_id=wf.id, stage_id=x.id, target_stage_ref_id=target.ref_id, jump_context={"why": 1}, created_at=_CREATED)
            msg.message_id = "55"
            JumpToStageHandler(w.queue, w.store).handle(msg)
            limit = m if wh in (1, 2) else DEFAULT_MAX
            spent = bool(c >= limit)
            rows = {r["ref_id"]: r for r in w.table("stage_executions")}
            starts, completes = _payloads(w, "StartStage"), _payloads(w, "CompleteStage")
            processed = [r["message_id"] for r in w.table("processed_messages")]
            with hx.native():
                P.reached((wh, sl, spent))
                info = {"max_jumps_from": ["default", "workflow", "stage"][wh], "self_loop": sl, "budget_spent": spent,
                        "StartStage": len(starts), "CompleteStage": len(completes)}
            if processed != ["55"]:
                return P.fail("C15/jump_budget/message_not_marked_processed_with_the_jump", info)
            src, tgt = rows["x"], rows[target.ref_id]
            sctx2, tctx2 = src["context"].obj, tgt["context"].obj
            if spent:
                if src["status"] != "TERMINAL" or starts or len(completes) != 1 or completes[0]["stage_id"] != x.id:
                    return P.fail("C15/jump_budget/budget_spent_but_jump_performed_or_source_not_failed", {**info, "source": src["status"]})
                return True
            if completes or len(starts) != 1 or starts[0]["stage_id"] != target.id:
                return P.fail("C15/jump_budget/jump_within_budget_not_performed_once", info)
            if tgt["status"] != "NOT_STARTED" or not tctx2.get("_jump_bypass"):
                return P.fail("C15/jump_budget/target_not_rearmed_with_bypass", {**info, "target": tgt["status"]})
            if not (tctx2.get("_jump_count") == c + 1) or not (sctx2.get("_jump_count") == c + 1):
                return P.fail("C15/jump_budget/counter_not_incremented_on_source_and_target", info)
            if not sl and (src["status"] != "NOT_STARTED" or sctx2.get("_jump_bypass")):
                return P.fail("C15/jump_budget/source_of_backward_jump_not_rearmed_or_carries_bypass", {**info, "source": src["status"]})
            if rows["z"]["status"] != "NOT_STARTED":
                return P.fail("C15/jump_budget/downstream_changed")
            return True
        finally:
            w.close()


PLAN = [("jump_budget", "quick", 280)]
META = {
    "functions": ["src/stabilize/handlers/jump_to_stage/handler.py:JumpToStageHandler.handle/_check_jump_count/_apply_jump", "src/stabilize/handlers/jump_to_stage/reset.py"],
    "bounds": ["_jump_count and _max_jumps symbolic in [0,30]; limit taken from the workflow context, the source stage context or the default (10); self loop and two-stage backward jump"],
    "stubs": ["SymDB instead of SQLite (validated differentially on every run)", "json: value-carrying stub", "ids/clock stubs"],
    "assumptions": [],
}
