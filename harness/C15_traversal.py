"""C15 (function level) - jump traversals against a dominance oracle; ranking function (S2).

``get_resettable_downstream_stages`` / ``get_skipped_stages`` / ``get_downstream_stages`` run under
CrossHair on every DAG with <=4 (thorough: 5) stages (edge bits chosen by the solver).  The
termination argument for always-jumping workflows is discharged with z3 directly.
"""
from __future__ import annotations

from vf import hx, stubs

stubs.install()

from stabilize.handlers.jump_to_stage.traversal import (  # noqa: E402
    get_downstream_stages,
    get_resettable_downstream_stages,
    get_skipped_stages,
)
from stabilize.models.stage import StageExecution  # noqa: E402
from stabilize.models.workflow import Workflow  # noqa: E402


def _build(n: int, edge_syms: list, rev: bool):
    """Stage i may depend on stage j<i; bit k of the triangular numbering."""
    refs = ["s%d" % i for i in range(n)]
    deps: dict[str, set[str]] = {r: set() for r in refs}
    k = 0
    for i in range(n):
        for j in range(i):
            if hx.decide(edge_syms[k]):
                deps[refs[i]].add(refs[j])
            k += 1
    stages = [StageExecution(ref_id=r, name=r, requisite_stage_ref_ids=set(deps[r])) for r in refs]
    if rev:
        stages = list(reversed(stages))
    wf = Workflow(application="a", name="w", stages=stages)
    return wf, refs, deps


def _paths_all_through(deps: dict[str, set[str]], node: str, via: str) -> bool:
    """Every path from a root to ``node`` passes through ``via`` (node != via)."""
    if node == via:
        return True
    if not deps[node]:
        return False  # node is a root not equal to via
    return all(_paths_all_through(deps, p, via) for p in deps[node])


def _descendants(deps: dict[str, set[str]], node: str) -> set[str]:
    out: set[str] = set()
    changed = True
    while changed:
        changed = False
        for r, ps in deps.items():
            if r not in out and (node in ps or ps & out):
                out.add(r)
                changed = True
    return out


def _resettable(n: int, edges: list, t, rev: bool, name: str) -> bool:
    with hx.Path(name) as P:
        wf, refs, deps = _build(n, edges, rev)
        target = refs[hx.pick(t, n)]
        got = get_resettable_downstream_stages(wf, target)
        down = get_downstream_stages(wf, target)
        with hx.native():
            got_refs = [s.ref_id for s in got]
            want = {r for r in refs if r != target and _paths_all_through(deps, r, target)}
            P.reached((tuple(sorted((r, tuple(sorted(d))) for r, d in deps.items())), target, rev))
            info = {"deps": {r: sorted(d) for r, d in deps.items()}, "target": target, "got": sorted(got_refs), "want": sorted(want)}
            if len(got_refs) != len(set(got_refs)):
                return P.fail("C15/traversal/resettable_has_duplicates", info)
            if set(got_refs) - want:
                return P.fail("C15/traversal/resets_stage_with_upstream_outside_scope", info)
            if want - set(got_refs):
                return P.fail("C15/traversal/misses_stage_that_depends_only_on_target", info)
            if {s.ref_id for s in down} != _descendants(deps, target) or len(down) != len({s.ref_id for s in down}):
                return P.fail("C15/traversal/downstream_closure_wrong", {**info, "downstream": sorted(s.ref_id for s in down)})
            return True


def _skipped(n: int, edges: list, s_sym, t_sym, rev: bool, name: str) -> bool:
    with hx.Path(name) as P:
        wf, refs, deps = _build(n, edges, rev)
        source = refs[hx.pick(s_sym, n)]
        target = refs[hx.pick(t_sym, n)]
        src = next(s for s in wf.stages if s.ref_id == source)
        tgt = next(s for s in wf.stages if s.ref_id == target)
        got = get_skipped_stages(wf, src, tgt)
        with hx.native():
            got_refs = {s.ref_id for s in got}
            tchain = {target} | _descendants(deps, target)
            dominated = {r for r in refs if r != source and _paths_all_through(deps, r, source)}
            want = dominated - tchain
            P.reached((tuple(sorted((r, tuple(sorted(d))) for r, d in deps.items())), source, target, rev))
            info = {"deps": {r: sorted(d) for r, d in deps.items()}, "source": source, "target": target, "got": sorted(got_refs), "want": sorted(want)}
            if got_refs & tchain:
                return P.fail("C15/traversal/skips_target_or_its_descendant", info)
            if got_refs - dominated:
                return P.fail("C15/traversal/skips_stage_with_upstream_outside_scope", info)
            if want - got_refs:
                return P.fail("C15/traversal/bypassed_stage_not_skipped", info)
            return True


def resettable4(e0: bool, e1: bool, e2: bool, e3: bool, e4: bool, e5: bool, t: int, rev: bool) -> bool:
    """
    post: _
    """
    return _resettable(4, [e0, e1, e2, e3, e4, e5], t, rev, "resettable4")


def skipped4(e0: bool, e1: bool, e2: bool, e3: bool, e4: bool, e5: bool, s: int, t: int) -> bool:
    """
    post: _
    """
    return _skipped(4, [e0, e1, e2, e3, e4, e5], s, t, False, "skipped4")


def resettable5(e0: bool, e1: bool, e2: bool, e3: bool, e4: bool, e5: bool, e6: bool, e7: bool, e8: bool, e9: bool, t: int) -> bool:
    """
    post: _
    """
    return _resettable(5, [e0, e1, e2, e3, e4, e5, e6, e7, e8, e9], t, False, "resettable5")


def resettable5_rev(e0: bool, e1: bool, e2: bool, e3: bool, e4: bool, e5: bool, e6: bool, e7: bool, e8: bool, e9: bool, t: int) -> bool:
    """
    post: _
    """
    return _resettable(5, [e0, e1, e2, e3, e4, e5, e6, e7, e8, e9], t, True, "resettable5")


def skipped5_s0(e0: bool, e1: bool, e2: bool, e3: bool, e4: bool, e5: bool, e6: bool, e7: bool, e8: bool, e9: bool, t: int) -> bool:
    """
    post: _
    """
    return _skipped(5, [e0, e1, e2, e3, e4, e5, e6, e7, e8, e9], 0, t, False, "skipped5")


def skipped5_s1(e0: bool, e1: bool, e2: bool, e3: bool, e4: bool, e5: bool, e6: bool, e7: bool, e8: bool, e9: bool, t: int) -> bool:
    """
    post: _
    """
    return _skipped(5, [e0, e1, e2, e3, e4, e5, e6, e7, e8, e9], 1, t, False, "skipped5")


def _ranking_queries(n: int, M: int) -> tuple[int, str | None]:
    """Termination of always-jumping workflows.  Step relation (established on the real handler by
    the loop runs of C15_s1_loops and the jump-budget lemma): a jump from source s to target t is
    enabled only if c_s < M and sets c_s' = c_t' = c_s + 1, all other counters unchanged.  The
    measure Phi = sum_i 3^(M - min(c_i, M)) strictly decreases on every step, for every valuation of
    the counters (no invariant needed), so at most n * 3^M jumps happen.  One unsat query per
    (source, target) pair."""
    import z3

    def pw(x):  # 3^(M - min(x, M)), tabulated: linear arithmetic with if-then-else only
        e = z3.IntVal(1)
        for v in range(M - 1, -1, -1):
            e = z3.If(x == v, z3.IntVal(3 ** (M - v)), e)
        return e

    done = 0
    for s_i in range(n):
        for t_i in range(n):
            c = [z3.Int("c%d" % i) for i in range(n)]
            solver = z3.Solver()
            solver.set("timeout", 120000)
            for x in c:
                solver.add(x >= 0)
            solver.add(c[s_i] < M)
            c2 = [c[s_i] + 1 if i in (s_i, t_i) else c[i] for i in range(n)]
            solver.add(z3.Not(sum(pw(x) for x in c2) < sum(pw(x) for x in c)))
            r = str(solver.check())
            done += 1
            if r == "sat":
                return done, "sat: n=%d M=%d s=%d t=%d model=%s" % (n, M, s_i, t_i, solver.model())
            if r != "unsat":
                raise hx.HarnessError("z3 returned %s for the ranking obligation n=%d M=%d s=%d t=%d" % (r, n, M, s_i, t_i))
    return done, None


def _ranking(ns: list[int], Ms: list[int], name: str) -> bool:
    with hx.Path(name) as P:
        with hx.native():
            total = 0
            for n in ns:
                for M in Ms:
                    done, bad = _ranking_queries(n, M)
                    total += done
                    if bad is not None:
                        return P.fail("C15/ranking/measure_does_not_decrease", {"witness": bad})
                    P.reached((n, M), {"n": n, "M": M, "queries": done, "verdict": "unsat"})
            hx.STATS.extra["z3_queries"] = total
            return True


def ranking_small() -> bool:
    """
    post: _
    """
    return _ranking([1, 2, 3], [0, 1, 2, 3, 10], "ranking")


def ranking_full() -> bool:
    """
    post: _
    """
    return _ranking([1, 2, 3, 4, 5], list(range(0, 11)), "ranking")


PLAN = [
    ("resettable4", "quick", 280),
    ("skipped4", "quick", 280),
    ("ranking_small", "quick", 280),
    ("ranking_full", "thorough", 1500),
    ("resettable5", "thorough", 1500),
    ("resettable5_rev", "thorough", 1500),
    ("skipped5_s0", "thorough", 1500),
    ("skipped5_s1", "thorough", 1500),
]

META = {
    "functions": ["src/stabilize/handlers/jump_to_stage/traversal.py:get_resettable_downstream_stages/get_skippable_downstream_stages/get_skipped_stages/get_downstream_stages"],
    "bounds": ["every DAG on 4 stages (6 edge bits) x every target (x source) x list order; 5 stages (10 edge bits) in the thorough tier",
               "ranking: n <= 5 stages, max_jumps <= 10, one unsat z3 query per (n, M, source, target) over unbounded non-negative integer counters (quick: n <= 3, M in {0,1,2,3,10})"],
    "stubs": ["ids: ULID() replaced by a counter"],
    "assumptions": ["oracle: a stage 'depends only on' X iff every path from a root to it passes through X (dominance), computed by path enumeration"],
}
