"""C18 handler-step lemmas over SymDB (S2): one step of the real SignalStageHandler from every stage
status, and one step of RunTaskHandler for a suspending task with a solver-chosen signal buffer.
The signal payload is a symbolic integer carried through the store's JSON columns."""
from __future__ import annotations

import datetime as _dt
import json

from vf import hx, symdb, world2

world2.install(json_stub=True)

from harness.s2util import ST, row_of  # noqa: E402

from stabilize import Task, TaskRegistry, TaskResult  # noqa: E402
from stabilize.handlers import RunTaskHandler  # noqa: E402
from stabilize.handlers.signal_stage import SignalStageHandler  # noqa: E402
from stabilize.models.stage import StageExecution  # noqa: E402
from stabilize.models.status import WorkflowStatus  # noqa: E402
from stabilize.models.task import TaskExecution  # noqa: E402
from stabilize.models.workflow import Workflow  # noqa: E402
from stabilize.queue.messages import RunTask, SignalStage  # noqa: E402

_CREATED = _dt.datetime(2024, 1, 1)


def _obj(v):
    return v.obj if isinstance(v, symdb.JText) else json.loads(v)


def _msgs(w) -> list[tuple[str, dict]]:
    return [(r["message_type"], _obj(r["payload"])) for r in w.table("queue_messages")]


def signal_step(stage_status: int, persistent: bool, task_suspended: bool, nbuf: int, v: int) -> bool:
    """
    pre: 0 <= v <= 1000
    post: _
    """
    with hx.Path("signal_step") as P:
        ss = ST[hx.pick(stage_status, 12)]
        pers, tsus = hx.decide(persistent), hx.decide(task_suspended)
        nb = hx.pick(nbuf, 3)
        w = world2.SWorld(name="sig", json_stub=True)
        try:
            t = TaskExecution.create(name="t", implementing_class="x", stage_start=True, stage_end=True)
            t.status = WorkflowStatus.SUSPENDED if tsus else (WorkflowStatus.RUNNING if ss.name in ("RUNNING", "SUSPENDED") else WorkflowStatus.NOT_STARTED)
            ctx = {"own": 1}
            if nb:
                ctx["_buffered_signals"] = [{"signal_name": "old%d" % i, "signal_data": {"v": i}} for i in range(nb)]
            s = StageExecution(ref_id="s", name="s", type="x", status=ss, context=ctx, tasks=[t])
            wf = Workflow(application="a", name="w", stages=[s], status=WorkflowStatus.RUNNING)
            w.store.store(wf)
            v0 = row_of(w, "stage_executions", s.id)["version"]
            m = SignalStage(execution_id=wf.id, stage_id=s.id, signal_name="go", signal_data={"v": v}, persistent=pers, created_at=_CREATED)
            m.message_id = "61"
            SignalStageHandler(w.queue, w.store).handle(m)
            row = row_of(w, "stage_executions", s.id)
            trow = row_of(w, "task_executions", t.id)
            c = _obj(row["context"])
            msgs = _msgs(w)
            processed = [r["message_id"] for r in w.table("processed_messages")]
            with hx.native():
                P.reached((ss.name, pers, tsus, nb))
                info = {"stage": ss.name, "persistent": pers, "task_suspended": tsus, "buffered_before": nb, "after": row["status"], "messages": [x[0] for x in msgs]}
            if processed != ["61"]:
                return P.fail("C18/signal_step/not_marked_processed", info)
            if c.get("own") != 1:
                return P.fail("C18/signal_step/context_lost", info)
            if ss.name == "SUSPENDED":
                if row["status"] != "RUNNING" or c.get("_signal_name") != "go":
                    return P.fail("C18/signal_step/suspended_stage_not_resumed", info)
                d = c.get("_signal_data")
                if not (isinstance(d, dict) and d.get("v") == v):
                    return P.fail("C18/signal_step/payload_differs", info)
                want = "RunTask" if tsus else "StartStage"
                if [x[0] for x in msgs] != [want]:
                    return P.fail("C18/signal_step/resume_message_not_exactly_one_%s" % want, info)
                if tsus and (trow["status"] != "RUNNING" or msgs[0][1].get("task_id") != t.id):
                    return P.fail("C18/signal_step/suspended_task_not_rerun", info)
                if len(c.get("_buffered_signals") or []) != nb:
                    return P.fail("C18/signal_step/buffer_changed_by_delivery", info)
                return True
            # not waiting
            if row["status"] != ss.name or msgs:
                return P.fail("C18/signal_step/not_waiting_stage_changed_or_message_pushed", info)
            buf = c.get("_buffered_signals") or []
            if pers:
                if len(buf) != nb + 1:
                    return P.fail("C18/signal_step/persistent_signal_not_buffered_once", {**info, "buffer_len": len(buf)})
                last = buf[-1]
                if last.get("signal_name") != "go" or not (last.get("signal_data") or {}).get("v") == v:
                    return P.fail("C18/signal_step/buffered_payload_differs", info)
                if [b.get("signal_name") for b in buf[:-1]] != ["old%d" % i for i in range(nb)]:
                    return P.fail("C18/signal_step/buffer_order_changed", info)
            else:
                if len(buf) != nb or c.get("_signal_name") is not None or row["version"] != v0:
                    return P.fail("C18/signal_step/transient_signal_had_an_effect", info)
            return True
        finally:
            w.close()


class _Suspender(Task):
    def execute(self, stage):
        if stage.context.get("_signal_name"):
            return TaskResult.success(outputs={"sig": stage.context.get("_signal_data")})
        return TaskResult.suspend()


def suspend_step(nbuf: int, v: int, interfere: bool) -> bool:
    """
    pre: 0 <= v <= 1000
    post: _
    """
    # A task suspends while nb persistent signals are buffered; optionally another persistent signal
    # is handled right after that step (before anything the step queued).  Whatever the step queues
    # for itself (nothing, or follow-up SignalStage messages) is then handled.  Representation-
    # agnostic oracle: no persistent signal is lost or duplicated - exactly one of them has been
    # delivered (stage RUNNING, one RunTask, payload intact) and the others are still buffered; with
    # no signal at all the stage stays SUSPENDED with nothing queued.
    from stabilize.queue.sqlite.serialization import deserialize_message

    with hx.Path("suspend_step") as P:
        nb = hx.pick(nbuf, 4)
        inter = hx.decide(interfere)
        w = world2.SWorld(name="sus", json_stub=True)
        try:
            t = TaskExecution.create(name="t", implementing_class="sus", stage_start=True, stage_end=True)
            t.status = WorkflowStatus.RUNNING
            ctx = {"own": 1}
            if nb:
                ctx["_buffered_signals"] = [{"signal_name": "n%d" % i, "signal_data": {"v": v + i}} for i in range(nb)]
            s = StageExecution(ref_id="s", name="s", type="x", status=WorkflowStatus.RUNNING, context=ctx, tasks=[t])
            wf = Workflow(application="a", name="w", stages=[s], status=WorkflowStatus.RUNNING)
            w.store.store(wf)
            reg = TaskRegistry()
            reg.register("sus", _Suspender)
            m = RunTask(execution_id=wf.id, stage_id=s.id, task_id=t.id, task_type="sus", created_at=_CREATED)
            m.message_id = "71"
            RunTaskHandler(w.queue, w.store, reg).handle(m)
            sh = SignalStageHandler(w.queue, w.store)
            if inter:
                m2 = SignalStage(execution_id=wf.id, stage_id=s.id, signal_name="late", signal_data={"v": v + 50}, persistent=True, created_at=_CREATED)
                m2.message_id = "72"
                sh.handle(m2)
            for _ in range(6):  # follow-up messages the step queued for itself
                with hx.native():
                    rows = [r for r in w.db.tables["queue_messages"] if r["message_type"] == "SignalStage"]
                if not rows:
                    break
                r = rows[0]
                fm = deserialize_message("SignalStage", r["payload"].obj if isinstance(r["payload"], symdb.JText) else r["payload"])
                fm.message_id = str(r["id"])
                sh.handle(fm)
                with hx.native():
                    w.db.tables["queue_messages"].remove(r)
            row = row_of(w, "stage_executions", s.id)
            trow = row_of(w, "task_executions", t.id)
            c = _obj(row["context"])
            msgs = _msgs(w)
            want = {"n%d" % i: v + i for i in range(nb)}
            if inter:
                want["late"] = v + 50
            buf = c.get("_buffered_signals") or []
            with hx.native():
                P.reached((nb, inter))
                info = {"buffered_before": nb, "another_signal_right_after": inter, "stage": row["status"], "task": trow["status"], "messages": [x[0] for x in msgs],
                        "delivered": c.get("_signal_name"), "still_buffered": [b.get("signal_name") for b in buf]}
            if not want:
                if row["status"] != "SUSPENDED" or trow["status"] != "SUSPENDED" or msgs:
                    return P.fail("C18/suspend_step/stage_not_left_waiting", info)
                return True
            if row["status"] != "RUNNING" or trow["status"] != "RUNNING":
                return P.fail("C18/suspend_step/pending_signal_did_not_resume_the_stage", info)
            if [x[0] for x in msgs] != ["RunTask"] or msgs[0][1].get("task_id") != t.id:
                return P.fail("C18/suspend_step/resume_did_not_rerun_the_task_exactly_once", info)
            got = c.get("_signal_name")
            if got not in want:
                return P.fail("C18/suspend_step/delivered_signal_is_none_of_the_pending_ones", info)
            if not (c.get("_signal_data") or {}).get("v") == want[got]:
                return P.fail("C18/suspend_step/payload_differs", info)
            rest = sorted(b.get("signal_name") for b in buf)
            if rest != sorted(k_ for k_ in want if k_ != got):
                return P.fail("C18/suspend_step/persistent_signal_lost_or_duplicated", {**info, "expected_still_buffered": sorted(k_ for k_ in want if k_ != got)})
            for b in buf:
                if not (b.get("signal_data") or {}).get("v") == want[b.get("signal_name")]:
                    return P.fail("C18/suspend_step/buffered_payload_differs", info)
            return True
        finally:
            w.close()


PLAN = [("signal_step", "quick", 280), ("suspend_step", "quick", 200)]
META = {
    "functions": ["src/stabilize/handlers/signal_stage.py:SignalStageHandler", "src/stabilize/handlers/run_task/handler.py:RunTaskHandler.handle", "src/stabilize/handlers/run_task/result.py:_handle_suspended"],
    "bounds": ["SignalStage from every stage status x persistent/transient x suspended task present or not x 0..2 signals already buffered, payload a symbolic int in [0,1000]",
               "suspending task with 0..3 buffered signals, optionally another persistent signal handled right after the step, follow-up messages of the step handled; payloads symbolic"],
    "stubs": ["SymDB instead of SQLite (validated differentially on every run)", "json.dumps/loads of the store replaced by an object-carrying stub", "task executor inline", "ids/clock stubs"],
    "assumptions": [],
}
