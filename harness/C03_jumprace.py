"""C03 (S2 over SymDB) - a backward jump from a parallel branch races the start of a join that
does not depend on the jumping stage.

Worker A handles StartStage(j) (j <- b, c, both SUCCEEDED).  Worker B's complete JumpToStageHandler
(x -> a: re-arms a, b, c, x and j) runs just before A's k-th SQL statement, k symbolic: between A's
readiness read and its claim the upstreams go back to NOT_STARTED.  Whatever the position, j must not
end up started (RUNNING / its StartTask queued) while b or c is not complete.
"""
from __future__ import annotations

import datetime as _dt

from vf import hx, symdb, world2

world2.install(json_stub=True)

from harness.s2util import nest_at, second_store  # noqa: E402

from stabilize import SqliteQueue  # noqa: E402
from stabilize.handlers import JumpToStageHandler, StartStageHandler  # noqa: E402
from stabilize.models.stage import StageExecution  # noqa: E402
from stabilize.models.status import WorkflowStatus  # noqa: E402
from stabilize.models.task import TaskExecution  # noqa: E402
from stabilize.models.workflow import Workflow  # noqa: E402
from stabilize.queue.messages import JumpToStage, StartStage  # noqa: E402

_CREATED = _dt.datetime(2024, 1, 1)
DONE = {"SUCCEEDED", "FAILED_CONTINUE", "SKIPPED"}


def _payloads(w, mtype: str) -> list[dict]:
    return [r["payload"].obj if isinstance(r["payload"], symdb.JText) else __import__("json").loads(r["payload"]) for r in w.table("queue_messages") if r["message_type"] == mtype]


def start_vs_backward_jump(k: int, v0: int) -> bool:
    """
    pre: 1 <= k <= 60 and 0 <= v0 <= 50
    post: _
    """
    with hx.Path("start_vs_backward_jump") as P:
        w = world2.SWorld(name="jr", json_stub=True)
        try:
            mk = lambda ref, deps, st: StageExecution(ref_id=ref, name=ref, type="x", status=st, requisite_stage_ref_ids=set(deps),  # noqa: E731
                                                      tasks=[TaskExecution.create(name="t", implementing_class="x", stage_start=True, stage_end=True)])
            a = mk("a", [], WorkflowStatus.SUCCEEDED)
            b = mk("b", ["a"], WorkflowStatus.SUCCEEDED)
            c = mk("c", ["a"], WorkflowStatus.SUCCEEDED)
            x = mk("x", ["a"], WorkflowStatus.RUNNING)
            j = mk("j", ["b", "c"], WorkflowStatus.NOT_STARTED)
            for s_ in (a, b, c):
                s_.tasks[0].status = WorkflowStatus.SUCCEEDED
            x.tasks[0].status = WorkflowStatus.RUNNING
            wf = Workflow(application="a", name="w", stages=[a, b, c, x, j], status=WorkflowStatus.RUNNING)
            w.store.store(wf)
            with hx.native():
                for r in w.db.tables["stage_executions"]:
                    if r["id"] == j.id:
                        r["version"] = v0
            sb = second_store(w)
            qb = SqliteQueue(w.url)
            cb = sb._get_connection()
            qb._get_connection = lambda: cb  # type: ignore[method-assign]

            def run_b() -> None:
                m = JumpToStage(execution_id=wf.id, stage_id=x.id, target_stage_ref_id="a", created_at=_CREATED)
                m.message_id = "802"
                JumpToStageHandler(qb, sb).handle(m)

            st = nest_at(w.conn(), k, run_b)
            ma = StartStage(execution_id=wf.id, stage_id=j.id, created_at=_CREATED)
            ma.message_id = "801"
            StartStageHandler(w.queue, w.store).handle(ma)
            w.conn().pre_statement = None
            if not st["done"]:
                run_b()
            rows = {r["ref_id"]: r for r in w.table("stage_executions")}
            start_tasks = [d for d in _payloads(w, "StartTask") if d.get("stage_id") == j.id]
            with hx.native():
                stj = rows["j"]["status"]
                ups = {r_: rows[r_]["status"] for r_ in ("b", "c")}
                P.reached((st["at"], stj, tuple(sorted(ups.items())), len(start_tasks)))
                info = {"jump_ran_before_statement": st["at"], "j": stj, "upstreams": ups, "StartTask_for_j": len(start_tasks)}
            if stj == "RUNNING" and any(u not in DONE for u in ups.values()):
                return P.fail("C03/jump_race/join_started_although_upstreams_were_rearmed", info)
            return True
        finally:
            w.close()


PLAN = [("start_vs_backward_jump", "quick", 280)]
META = {
    "functions": ["src/stabilize/handlers/start_stage/handler.py:StartStageHandler (_start_if_ready: readiness, claim, plan)", "src/stabilize/handlers/jump_to_stage/handler.py:JumpToStageHandler",
                  "src/stabilize/dag/readiness.py:evaluate_readiness"],
    "bounds": ["DAG a -> {b, c, x}, j <- {b, c}; x jumps back to a; B's whole handler before A's k-th statement, k in [1,60] symbolic; j's row version symbolic in [0,50]"],
    "stubs": ["SymDB instead of SQLite (validated differentially on every run)", "json stub", "ids/clock stubs"],
    "assumptions": ["positions inside A's open write transaction are not enabled (SQLite's writer lock)"],
}
