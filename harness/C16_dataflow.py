"""C16 (function level) - ancestor merge, planner merge and fan-in reducers (S2).

``get_merged_ancestor_outputs`` (BFS + Kahn + merge), ``StartStagePlannerMixin._plan_stage`` and
``apply_output_reducers`` run under CrossHair; the DAG (edge bits), which stages publish which key
and the reducer inputs are chosen by the solver.
"""
from __future__ import annotations

import json

from vf import hx, stubs

stubs.install()

from stabilize.handlers.start_stage.planner import StartStagePlannerMixin  # noqa: E402
from stabilize.models.stage import StageExecution  # noqa: E402
from stabilize.models.task import TaskExecution  # noqa: E402
from stabilize.models.workflow import Workflow  # noqa: E402
from stabilize.persistence.sqlite.queries import get_merged_ancestor_outputs  # noqa: E402
from stabilize.reducers import apply_output_reducers  # noqa: E402


class _Rows:
    def __init__(self, rows: list[dict]) -> None:
        self.rows = rows

    def fetchall(self) -> list[dict]:
        return self.rows


class _Conn:
    """Stands in for sqlite3.Connection for the single SELECT the function issues (the SQL text
    itself is exercised by the engine-level runs, whose ledgers record the contexts seen)."""

    def __init__(self, rows: list[dict]) -> None:
        self.rows = rows
        self.sql: list[str] = []

    def execute(self, sql: str, params=None):
        self.sql.append(" ".join(sql.split()))
        return _Rows(self.rows)


def _ancestors(deps: dict[str, set[str]], node: str) -> set[str]:
    out: set[str] = set()
    stack = list(deps[node])
    while stack:
        x = stack.pop()
        if x not in out:
            out.add(x)
            stack.extend(deps[x])
    return out


def _merge(n: int, edges: list, pubk: list, publ: list, name: str) -> bool:
    with hx.Path(name) as P:
        refs = ["s%d" % i for i in range(n)]
        deps: dict[str, set[str]] = {r: set() for r in refs}
        k = 0
        for i in range(n):
            for j in range(i):
                if hx.decide(edges[k]):
                    deps[refs[i]].add(refs[j])
                k += 1
        pk = [hx.decide(b) for b in pubk]
        pl = [hx.decide(b) for b in publ]
        with hx.native():
            rows = []
            for i, r in enumerate(refs):
                out = {}
                if pk[i]:
                    out["k"] = r
                if pl[i]:
                    out["l"] = [r, "shared"]
                rows.append({"ref_id": r, "requisite_stage_ref_ids": json.dumps(sorted(deps[r])), "outputs": json.dumps(out)})
            rows.append({"ref_id": "other_branch", "requisite_stage_ref_ids": "[]", "outputs": json.dumps({"k": "other_branch", "l": ["other_branch"]})})
            target = refs[-1]
            conn = _Conn(rows)
        got = get_merged_ancestor_outputs(conn, "e", target)  # type: ignore[arg-type]
        with hx.native():
            anc = _ancestors(deps, target)
            pubs = {r for i, r in enumerate(refs) if pk[i] and r in anc}
            P.reached((tuple(sorted((r, tuple(sorted(d))) for r, d in deps.items())), tuple(pk), tuple(pl)))
            info = {"deps": {r: sorted(d) for r, d in deps.items()}, "publish_k": [r for i, r in enumerate(refs) if pk[i]],
                    "publish_l": [r for i, r in enumerate(refs) if pl[i]], "target": target, "got": got}
            if not pubs:
                if "k" in got:
                    return P.fail("C16/merge/sees_value_of_non_ancestor", info)
            else:
                if "k" not in got:
                    return P.fail("C16/merge/ancestor_value_missing", info)
                v = got["k"]
                if v not in pubs:
                    return P.fail("C16/merge/sees_value_of_non_ancestor", info)
                # nearest wins: no other publishing ancestor is a descendant of the winner
                later = [p for p in pubs if p != v and v in _ancestors(deps, p)]
                if later:
                    return P.fail("C16/merge/farther_ancestor_wins", {**info, "winner": v, "nearer": later})
            lpubs = {r for i, r in enumerate(refs) if pl[i] and r in anc}
            gl = got.get("l", [])
            want_l = set(lpubs) | ({"shared"} if lpubs else set())
            if set(gl) != want_l:
                return P.fail("C16/merge/list_values_do_not_accumulate", {**info, "want": sorted(want_l)})
            if len(gl) != len(set(gl)):
                return P.fail("C16/merge/list_duplicates", info)
            return True


def merge4(e1: bool, e2: bool, e3: bool, e4: bool, e5: bool, k0: bool, k1: bool, k2: bool, l0: bool, l1: bool) -> bool:
    """
    post: _
    """
    # every DAG on 4 stages with the edge s1->s0 present (merge4_noedge: absent); split in two for the time budget
    return _merge(4, [True, e1, e2, e3, e4, e5], [k0, k1, k2, False], [l0, l1, True, False], "merge4")


def merge4_noedge(e1: bool, e2: bool, e3: bool, e4: bool, e5: bool, k0: bool, k1: bool, k2: bool, l0: bool, l1: bool) -> bool:
    """
    post: _
    """
    return _merge(4, [False, e1, e2, e3, e4, e5], [k0, k1, k2, False], [l0, l1, True, False], "merge4_noedge")


def merge5_chainish(e1: bool, e2: bool, e4: bool, e5: bool, e7: bool, e8: bool, e9: bool, k0: bool, k1: bool, k2: bool, k3: bool) -> bool:
    """
    post: _
    """
    # 5 stages; edges s1->s0 and s4->s3 fixed, the rest chosen
    return _merge(5, [True, e1, e2, False, e4, e5, False, e7, e8, True or e9], [k0, k1, k2, k3, False], [True, False, True, False, False], "merge5")


class _Repo:
    def __init__(self, ancestors: dict, upstreams: list) -> None:
        self.a = ancestors
        self.u = upstreams
        self.added: list = []

    def get_merged_ancestor_outputs(self, execution_id: str, ref_id: str) -> dict:
        return json.loads(json.dumps(self.a))

    def get_upstream_stages(self, execution_id: str, ref_id: str) -> list:
        return self.u

    def add_stage(self, s) -> None:
        self.added.append(s)


class _Planner(StartStagePlannerMixin):
    def __init__(self, repo) -> None:
        self.repository = repo


def plan_merge(own_k: bool, own_l: bool, anc_k: bool, anc_l: bool, red_k: bool, up_k: int) -> bool:
    """
    pre: 0 <= up_k <= 3
    post: _
    """
    with hx.Path("plan_merge") as P:
        ok, ol, ak, al, rk = hx.decide(own_k), hx.decide(own_l), hx.decide(anc_k), hx.decide(anc_l), hx.decide(red_k)
        nup = hx.pick(up_k, 4)  # bit mask: which of the two upstream branches publish k
        with hx.native():
            anc = {"x": "keep"}
            if ak:
                anc["k"] = "anc"
            if al:
                anc["l"] = ["a1", "dup"]
            u1 = StageExecution(ref_id="u1", name="u1", outputs=({"k": 10} if nup & 1 else {"z": 1}))
            u2 = StageExecution(ref_id="u2", name="u2", outputs=({"k": 5} if nup & 2 else {}))
            ctx = {"own_only": 1}
            if ok:
                ctx["k"] = "own"
            if ol:
                ctx["l"] = ["dup", "o1"]
            st = StageExecution(ref_id="j", name="j", type="vf_noop_type", context=ctx, requisite_stage_ref_ids={"u1", "u2"},
                                output_reducers=({"k": "sum"} if rk else {}),
                                tasks=[TaskExecution.create(name="t", implementing_class="x")])
            wf = Workflow(application="a", name="w", stages=[u1, u2, st])
            repo = _Repo(anc, [u1, u2])
        _Planner(repo)._plan_stage(st)
        with hx.native():
            c = st.context
            P.reached((ok, ol, ak, al, rk, nup))
            info = {"own_k": ok, "own_l": ol, "anc_k": ak, "anc_l": al, "reducer_on_k": rk, "upstream_k_mask": nup, "context": {k: c.get(k) for k in ("k", "l", "x", "own_only")}}
            if c.get("x") != "keep" or c.get("own_only") != 1:
                return P.fail("C16/plan/unrelated_keys_changed", info)
            if rk and nup:
                want = (10 if nup & 1 else 0) + (5 if nup & 2 else 0)
                if c.get("k") != want:
                    return P.fail("C16/plan/reducer_value_overridden_or_wrong", {**info, "want": want})
            else:
                want_k = "own" if ok else ("anc" if ak else None)
                if rk and ok:
                    want_k = "anc" if ak else None  # reducer-named key: own context must not override (nothing reduced -> ancestor value)
                    if c.get("k") not in (want_k, None if not ak else "anc"):
                        return P.fail("C16/plan/reducer_key_own_override", info)
                elif c.get("k") != want_k:
                    return P.fail("C16/plan/own_value_does_not_win" if ok else "C16/plan/ancestor_value_lost", {**info, "want": want_k})
            wl = (["a1", "dup"] if al else []) + ([x for x in ["dup", "o1"] if not (al and x == "dup")] if ol else [])
            gl = c.get("l") or []
            if sorted(gl) != sorted(wl):
                return P.fail("C16/plan/list_values_do_not_accumulate", {**info, "want": wl})
            del wf
            return True


def replan_fresh(own_k: bool, anc1_k: bool, anc2_k: bool, anc1_l: bool, anc2_l: bool, task_writes_k: bool) -> bool:
    """
    post: _
    """
    from stabilize.handlers.jump_to_stage.reset import reset_stage_for_retry

    with hx.Path("replan_fresh") as P:
        ok, a1, a2, l1, l2, tw = hx.decide(own_k), hx.decide(anc1_k), hx.decide(anc2_k), hx.decide(anc1_l), hx.decide(anc2_l), hx.decide(task_writes_k)
        with hx.native():
            anc = {"x": "it1"}
            if a1:
                anc["k"] = "it1"
            if l1:
                anc["l"] = ["p1"]
            ctx = {"own_only": 1}
            if ok:
                ctx["k"] = "own"
            st = StageExecution(ref_id="j", name="j", type="vf_noop_type", context=ctx, requisite_stage_ref_ids={"u1"},
                                tasks=[TaskExecution.create(name="t", implementing_class="x")])
            u1 = StageExecution(ref_id="u1", name="u1")
            wf = Workflow(application="a", name="w", stages=[u1, st])
            repo = _Repo(anc, [u1])
        pl = _Planner(repo)
        pl._plan_stage(st)
        with hx.native():
            if tw:
                st.context["mine"] = "written-by-own-task"  # a task of the stage wrote to its context in iteration 1
            st.outputs = {"o": 1}
        reset_stage_for_retry(st)  # the jump_to loop re-arms the stage
        with hx.native():
            anc2 = {"x": "it2"}
            if a2:
                anc2["k"] = "it2"
            if l2:
                anc2["l"] = ["p2"]
            repo.a = anc2
        pl._plan_stage(st)
        # third iteration: the ancestors publish the iteration-3 values (same presence as in iteration 2)
        with hx.native():
            mid = dict(st.context)
            st.outputs = {"o": 2}
        reset_stage_for_retry(st)
        with hx.native():
            anc3 = {"x": "it3"}
            if a2:
                anc3["k"] = "it3"
            if l2:
                anc3["l"] = ["p3"]
            repo.a = anc3
        pl._plan_stage(st)
        with hx.native():
            c3 = st.context
            if c3.get("x") != "it3" or c3.get("k") != ("own" if ok else ("it3" if a2 else None)):
                P.reached((ok, a1, a2, l1, l2, tw, "it3"))
                return P.fail("C16/replan/stale_value_of_previous_iteration", {"iteration": 3, "own_k": ok, "context": {k_: c3.get(k_) for k_ in ("k", "x")}})
            if c3.get("own_only") != 1 or (tw and c3.get("mine") != "written-by-own-task"):
                return P.fail("C16/replan/own_context_lost", {"iteration": 3})
            c = mid
            P.reached((ok, a1, a2, l1, l2, tw))
            info = {"own_k": ok, "ancestor_k_iteration1": a1, "ancestor_k_iteration2": a2, "context": {k: c.get(k) for k in ("k", "l", "x", "own_only", "mine")}}
            if c.get("x") != "it2":
                return P.fail("C16/replan/stale_value_of_previous_iteration", info)
            want_k = "own" if ok else ("it2" if a2 else None)
            if c.get("k") != want_k:
                return P.fail("C16/replan/own_value_lost" if ok else "C16/replan/stale_value_of_previous_iteration", {**info, "want_k": want_k})
            if c.get("own_only") != 1 or (tw and c.get("mine") != "written-by-own-task"):
                return P.fail("C16/replan/own_context_lost", info)
            if l2 and "p2" not in (c.get("l") or []):
                return P.fail("C16/replan/list_value_of_current_iteration_missing", info)
            del wf
            return True


def _perm(p: int, vals: list) -> list:
    perms = [[0, 1, 2], [0, 2, 1], [1, 0, 2], [1, 2, 0], [2, 0, 1], [2, 1, 0]]
    return [vals[i] for i in perms[p]]


def reducers_perm(a: int, b: int, c: int, p: int, present: int) -> bool:
    """
    pre: -3 <= a <= 3 and -3 <= b <= 3 and -3 <= c <= 3
    pre: 1 <= present <= 7
    post: _
    """
    with hx.Path("reducers_perm") as P:
        pi = hx.pick(p, 6)
        mask = hx.pick(present, 8)
        vals = [a, b, c]
        branches = []
        for i, v in enumerate(vals):
            o = {"other": i}
            if mask & (1 << i):
                o.update({"s": v, "c": v, "m": {"k%d" % i: v}, "e": [v]})
            branches.append(o)
        red = {"s": "sum", "c": "collect", "m": "merge", "e": "extend", "mx": "max", "mn": "min"}
        for o in branches:
            if "s" in o:
                o["mx"] = o["s"]
                o["mn"] = o["s"]
        r1 = apply_output_reducers(red, branches)
        r2 = apply_output_reducers(red, _perm(pi, branches))
        P.reached((pi, mask))
        chosen = [v for i, v in enumerate(vals) if mask & (1 << i)]
        if not chosen:
            return r1 == {} and r2 == {}
        if r1["s"] != r2["s"] or r1["s"] != sum(chosen):
            return P.fail("C16/reducers/sum_depends_on_order_or_wrong")
        if r1["mx"] != r2["mx"] or r1["mx"] != max(chosen) or r1["mn"] != r2["mn"] or r1["mn"] != min(chosen):
            return P.fail("C16/reducers/max_min_depends_on_order_or_wrong")
        if sorted(r1["c"]) != sorted(r2["c"]) or sorted(r1["c"]) != sorted(chosen):
            return P.fail("C16/reducers/collect_loses_or_duplicates_values")
        if sorted(r1["e"]) != sorted(r2["e"]) or sorted(r1["e"]) != sorted(chosen):
            return P.fail("C16/reducers/extend_loses_or_duplicates_values")
        if r1["m"] != r2["m"] or len(r1["m"]) != len(chosen):
            return P.fail("C16/reducers/merge_of_disjoint_keys_depends_on_order")
        if "other" in r1:
            return P.fail("C16/reducers/touches_key_without_reducer")
        return True


PLAN = [
    ("merge4", "quick", 280),
    ("merge4_noedge", "quick", 280),
    ("plan_merge", "quick", 200),
    ("replan_fresh", "quick", 200),
    ("reducers_perm", "quick", 280),
    ("merge5_chainish", "thorough", 1500),
]

META = {
    "functions": ["src/stabilize/persistence/sqlite/queries.py:get_merged_ancestor_outputs", "src/stabilize/handlers/start_stage/planner.py:_plan_stage", "src/stabilize/handlers/jump_to_stage/reset.py:reset_stage_for_retry",
                  "src/stabilize/reducers.py:apply_output_reducers + built-in reducers sum/max/min/collect/extend/merge"],
    "bounds": ["ancestor merge: every DAG on 4 stages x which of the first three publish a scalar key x which publish a list key; one unrelated stage always publishes both",
               "planner merge: own/ancestor presence of a scalar and a list key, reducer on/off, which of two upstream branches publish the reduced key",
               "re-planning after a jump_to re-arm (three plannings = three loop iterations): presence of the key in own context / in the ancestors' outputs of iteration 1 / of iteration 2, own task write in between",
               "reducers: 3 branches with symbolic integer values in [-3,3], every subset present, every permutation"],
    "stubs": ["sqlite3.Connection replaced by a row provider for the single SELECT of get_merged_ancestor_outputs", "repository replaced by a 3-method stub for _plan_stage", "ids: ULID() replaced by a counter"],
    "assumptions": ["only path-ordered keys are asserted for the scalar merge: when two publishing ancestors are unrelated either may win (as the property says)"],
}
