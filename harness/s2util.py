"""Shared helpers of the S2 (SymDB) store lemmas."""
from __future__ import annotations

from typing import Any

from vf import hx, world2

world2.install()

from stabilize import SqliteWorkflowStore  # noqa: E402
from stabilize.models.stage import StageExecution  # noqa: E402
from stabilize.models.status import WorkflowStatus  # noqa: E402
from stabilize.models.task import TaskExecution  # noqa: E402
from stabilize.models.workflow import Workflow  # noqa: E402

ST = list(WorkflowStatus)


def seed_stage(w, ntasks: int = 1, status: WorkflowStatus = WorkflowStatus.NOT_STARTED, extra_stage: bool = False, **stage_kw: Any):
    """Store a one-stage workflow through the real store (concrete values); returns (wf, stage)."""
    tasks = [TaskExecution.create(name="t%d" % i, implementing_class="x", stage_start=(i == 0), stage_end=(i == ntasks - 1)) for i in range(ntasks)]
    st = StageExecution(ref_id="s", name="s", type="x", status=status, context={"c0": 1}, outputs={"o0": 2}, tasks=tasks, **stage_kw)
    stages = [st]
    if extra_stage:
        stages.append(StageExecution(ref_id="other", name="other", type="x", context={"k": "v"}))
    wf = Workflow(application="a", name="w", stages=stages, status=WorkflowStatus.RUNNING)
    w.store.store(wf)
    return wf, st


def row_of(w, table: str, rid: Any) -> dict[str, Any]:
    return next(r for r in w.table(table) if r["id"] == rid)


def set_cells(w, table: str, rid: Any, **cells: Any) -> None:
    with hx.native():
        r = next(r for r in w.db.tables[table] if r["id"] == rid)
        r.update(cells)


def second_store(w) -> SqliteWorkflowStore:
    s2 = SqliteWorkflowStore.__new__(SqliteWorkflowStore)
    s2.connection_string = w.url
    s2._manager = w.manager
    c2 = w.second_connection()
    s2._get_connection = lambda: c2  # type: ignore[method-assign]  (another worker's thread-local connection)
    return s2


def snapshot_row(r: dict[str, Any]) -> dict[str, Any]:
    return dict(r)


def same_cell(a: Any, b: Any) -> bool:
    return bool(a == b) if (a is not None and b is not None) else (a is None and b is None)


def nest_at(conn_a, k_sym, run_b, max_k: int = 60):
    """One pre-emption at statement granularity: worker B's ``run_b()`` runs completely just before
    worker A's k-th statement (k symbolic: every position is explored).  A position at which A
    holds an open write transaction is not enabled (in SQLite B would wait for A's commit), so the
    pre-emption slips to A's next statement outside a transaction.  Returns a dict with the
    position actually used (None if the run of A had fewer statements)."""
    state = {"n": 0, "armed": False, "done": False, "at": None}

    def pre(conn, st) -> None:
        if state["done"]:
            return
        state["n"] += 1
        if not state["armed"] and state["n"] <= max_k and hx.decide_eq(k_sym, state["n"]):
            state["armed"] = True
        if state["armed"] and not conn.in_transaction:
            state["done"] = True
            state["at"] = state["n"]
            run_b()

    conn_a.pre_statement = pre
    return state
