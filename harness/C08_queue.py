"""C08 - queue: at-least-once delivery, one holder at a time, no message ever lost (S2 over SymDB).

The real ``SqliteQueue`` / ``SqliteDLQMixin`` code runs under full CrossHair tracing against SymDB;
deliver_at, locked_until, attempts, max_attempts, version and the clock instants are symbolic
integers.  Two pollers use two connections; the nested interleaving (B runs completely between A's
SELECT and A's UPDATE) is produced with SymDB's pre-statement hook.
"""
from __future__ import annotations

import json
from datetime import timedelta

from vf import hx, symdb, world2

world2.install()

from stabilize import SqliteQueue  # noqa: E402
from stabilize.queue.messages import StartStage  # noqa: E402

import datetime as _dt  # noqa: E402

_CREATED = _dt.datetime(2024, 1, 1)  # built outside tracing: CrossHair swaps in its own datetime class while tracing
T0 = 1_700_000_000_000
LOCK_MS = 60_000


def _row(rid: int, d, has_lock: bool, lk, a, m, v, tag: str = "s") -> dict:
    payload = json.dumps({"message_id": None, "created_at": "2024-01-01T00:00:00", "attempts": 0, "max_attempts": 10, "last_error": None,
                          "last_error_type": None, "execution_type": "PIPELINE", "execution_id": "e1", "stage_id": tag + str(rid), "retry_count": 0})
    return {"id": rid, "message_id": "m%d" % rid, "message_type": "StartStage", "payload": payload, "deliver_at": symdb.Iso(d),
            "attempts": a, "max_attempts": m, "locked_until": symdb.Iso(lk) if has_lock else None, "version": v, "created_at": symdb.Iso(T0)}


def _world(rows: list[dict], qmax: int = 10):
    w = world2.SWorld(name="q", queue_max_attempts=qmax)
    with hx.native():
        w.db.tables["queue_messages"].extend(rows)
        w.db.seq["queue_messages"] = max([r["id"] for r in rows] + [0])
    return w


def _second_queue(w, qmax: int = 10) -> SqliteQueue:
    qb = SqliteQueue(w.url, lock_duration=timedelta(milliseconds=LOCK_MS), max_attempts=qmax)
    cb = w.second_connection()
    qb._get_connection = lambda: cb  # type: ignore[method-assign]  (worker B has its own connection)
    return qb


def _sec(ms):
    return ms // 1000


def claim_nested(d: int, has_lock: bool, lk: int, a: int, m: int, v: int, t: int) -> bool:
    """
    pre: 0 <= d <= 200000 and 0 <= lk <= 200000 and 0 <= t <= 200000
    pre: 0 <= a <= 12 and 1 <= m <= 12 and 0 <= v <= 5
    post: _
    """
    with hx.Path("claim_nested") as P:
        hl = hx.decide(has_lock)
        w = _world([_row(1, T0 + d, hl, T0 + lk, a, 10, v)], qmax=m)
        try:
            symdb.CLOCK.now = T0 + t
            qa, qb = w.queue, _second_queue(w, m)
            got_b = []
            state = {"done": False}

            def pre(conn, st):
                if st[0] == "update" and not state["done"]:
                    state["done"] = True
                    got_b.append(qb.poll_one())  # worker B polls completely between A's SELECT and A's UPDATE

            w.conn().pre_statement = pre
            ma = qa.poll_one()
            mb = got_b[0] if got_b else None
            with hx.native():
                both = ma is not None and mb is not None
                P.reached(("nested", hl, ma is not None, mb is not None))
            if both:
                return P.fail("C08/claim/two_holders_at_once", {"nested": True})
            row = w.table("queue_messages")[0]
            if (ma is not None or mb is not None):
                if row["attempts"] != a + 1 or row["version"] != v + 1:
                    return P.fail("C08/claim/attempts_or_version_not_bumped_once")
                holder = ma if ma is not None else mb
                if holder.attempts != a + 1 or holder.message_id != "1":
                    return P.fail("C08/claim/returned_message_metadata_wrong")
            else:
                if row["attempts"] != a or row["version"] != v:
                    return P.fail("C08/claim/row_changed_without_claim")
            return True
        finally:
            w.close()


def claim_sequential(d: int, has_lock: bool, lk: int, a: int, m: int, v: int, t: int, dt: int) -> bool:
    """
    pre: 0 <= d <= 200000 and 0 <= lk <= 200000 and 0 <= t <= 200000 and 0 <= dt <= 200000
    pre: 0 <= a <= 12 and 1 <= m <= 12 and 0 <= v <= 5
    post: _
    """
    with hx.Path("claim_sequential") as P:
        hl = hx.decide(has_lock)
        w = _world([_row(1, T0 + d, hl, T0 + lk, a, 10, v)], qmax=m)
        try:
            qa, qb = w.queue, _second_queue(w, m)
            symdb.CLOCK.now = T0 + t
            ma = qa.poll_one()
            visible = _sec(T0 + d) <= _sec(T0 + t) and ((not hl) or _sec(T0 + lk) < _sec(T0 + t)) and a < m
            if (ma is not None) != visible:
                return P.fail("C08/visibility/deliverable_message_not_returned" if visible else "C08/visibility/undeliverable_message_returned",
                              {"has_lock": hl})
            symdb.CLOCK.now = T0 + t + dt
            mb = qb.poll_one()
            with hx.native():
                P.reached(("seq", hl, ma is not None, mb is not None))
            if ma is not None and mb is not None:
                # B may hold it only after A's lock (t + lock) has lapsed, at SQL's one-second granularity
                if not (_sec(T0 + t + LOCK_MS) < _sec(T0 + t + dt)):
                    return P.fail("C08/claim/second_holder_before_lock_lapsed")
                if mb.attempts != a + 2:
                    return P.fail("C08/claim/attempt_counter_wrong_on_redelivery")
            if ma is not None and mb is None and a + 1 < m:
                if _sec(T0 + t + LOCK_MS) < _sec(T0 + t + dt):
                    return P.fail("C08/visibility/unacked_message_not_redelivered_after_lock_lapsed")
            return True
        finally:
            w.close()


def ack_resched_extend(op: int, d1: int, d2: int, a1: int, a2: int, v1: int, t: int, delay: int) -> bool:
    """
    pre: 0 <= d1 <= 100000 and 0 <= d2 <= 100000 and 0 <= t <= 200000 and 0 <= delay <= 100000
    pre: 0 <= a1 <= 9 and 0 <= a2 <= 9 and 0 <= v1 <= 5
    post: _
    """
    with hx.Path("ack_resched_extend") as P:
        o = hx.pick(op, 3)
        w = _world([_row(1, T0 + d1, False, 0, a1, 10, v1), _row(2, T0 + d2, False, 0, a2, 10, 0)])
        try:
            symdb.CLOCK.now = T0 + t
            q = w.queue
            m = q.poll_one()
            with hx.native():
                P.reached((o, m is not None))
            if m is None:
                return True
            rid = int(m.message_id)
            other = 2 if rid == 1 else 1
            before_other = dict(next(r for r in w.table("queue_messages") if r["id"] == other))
            mine_before = dict(next(r for r in w.table("queue_messages") if r["id"] == rid))
            if o == 0:
                q.ack(m)
                rows = w.table("queue_messages")
                if len(rows) != 1 or rows[0]["id"] != other:
                    return P.fail("C08/ack/does_not_remove_exactly_the_acked_row")
            elif o == 1:
                q.reschedule(m, timedelta(milliseconds=delay))
                r = next(r for r in w.table("queue_messages") if r["id"] == rid)
                if r["locked_until"] is not None:
                    return P.fail("C08/reschedule/lock_not_cleared")
                if r["deliver_at"].ms != T0 + t + delay:
                    return P.fail("C08/reschedule/deliver_at_wrong")
                if r["attempts"] != mine_before["attempts"] or r["payload"] != mine_before["payload"]:
                    return P.fail("C08/reschedule/changes_other_columns")
            else:
                ok = q.extend_lock(m, timedelta(milliseconds=delay))
                r = next(r for r in w.table("queue_messages") if r["id"] == rid)
                want = T0 + t + (delay if delay != 0 else LOCK_MS)  # a zero duration means "the queue's lock_duration"
                if not ok or r["locked_until"] is None or r["locked_until"].ms != want:
                    return P.fail("C08/extend_lock/lock_not_extended")
                for c in ("deliver_at", "attempts", "version", "payload", "message_type"):
                    if not (r[c] == mine_before[c]):
                        return P.fail("C08/extend_lock/changes_other_columns")
            after_other = next(r for r in w.table("queue_messages") if r["id"] == other)
            for c in before_other:
                if not (after_other[c] == before_other[c]):
                    return P.fail("C08/queue_op/touches_another_message")
            return True
        finally:
            w.close()


OPS = ["poll", "ack", "reschedule", "extend_lock", "sweep", "move_to_dlq", "replay_dlq"]


def _op_sequence(name: str, ops: list, dts: list, a0, m, delay) -> bool:
    # One message driven through a solver-chosen sequence of queue operations with symbolic time
    # steps, against a reference model of (place, deliver_at, locked_until, attempts); the worker
    # keeps the handle of its last successful poll and uses it for ack / reschedule / extend.
    with hx.Path(name) as P:
        w = _world([_row(1, T0, False, 0, a0, m, 0, "x")], qmax=m)
        try:
            q = w.queue
            now = T0 + 1000
            place, d, lk, a, rid, rowmax = "q", T0, None, a0, 1, m
            held = None
            trace = []
            for oi, dt in zip(ops, dts):
                op = OPS[hx.pick(oi, len(OPS))]
                now = now + dt
                symdb.CLOCK.now = now
                with hx.native():
                    trace.append(op)
                if op == "poll":
                    vis = place == "q" and _sec(d) <= _sec(now) and (lk is None or _sec(lk) < _sec(now)) and a < m
                    got = q.poll_one()
                    if (got is not None) != bool(vis):
                        return P.fail("C08/sequence/%s" % ("deliverable_message_not_returned" if vis else "undeliverable_message_returned"), {"ops": trace})
                    if got is not None:
                        a, lk, held = a + 1, now + LOCK_MS, got
                        if got.attempts != a or int(got.message_id) != rid:
                            return P.fail("C08/sequence/polled_message_metadata_wrong", {"ops": trace})
                elif op == "ack":
                    if held is not None:
                        q.ack(held)
                        if place == "q" and int(held.message_id) == rid:
                            place = "acked"
                        held = None
                elif op == "reschedule":
                    if held is not None:
                        q.reschedule(held, timedelta(milliseconds=delay))
                        if place == "q" and int(held.message_id) == rid:
                            d, lk = now + delay, None
                        held = None
                elif op == "extend_lock":
                    if held is not None:
                        ok = q.extend_lock(held)
                        here = place == "q" and int(held.message_id) == rid
                        if bool(ok) != here:
                            return P.fail("C08/sequence/extend_lock_result_wrong", {"ops": trace})
                        if here:
                            lk = now + LOCK_MS
                elif op == "sweep":
                    n = q.check_and_move_expired()
                    exp = place == "q" and a >= rowmax
                    if (n == 1) != bool(exp) or n > 1:
                        return P.fail("C08/sequence/sweep_moves_wrong_rows", {"ops": trace})
                    if exp:
                        place = "dlq"
                elif op == "move_to_dlq":
                    q.move_to_dlq(rid, "boom")
                    if place == "q":
                        place = "dlq"
                else:
                    ents = w.table("queue_messages_dlq")
                    did = ents[0]["id"] if ents else 1
                    ok = q.replay_dlq(did)
                    if bool(ok) != (place == "dlq"):
                        return P.fail("C08/sequence/replay_result_wrong", {"ops": trace})
                    if place == "dlq":
                        place, a, lk, rowmax = "q", 0, None, 10
                        d = (now // 1000) * 1000
                        rid = w.table("queue_messages")[0]["id"]
                # compare with the real tables
                qrows = w.table("queue_messages")
                drows = w.table("queue_messages_dlq")
                with hx.native():
                    shape = (len(qrows), len(drows))
                want_shape = (1, 0) if place == "q" else ((0, 1) if place == "dlq" else (0, 0))
                if shape != want_shape:
                    return P.fail("C08/sequence/message_in_wrong_place", {"ops": trace, "expected": place, "queue_rows": shape[0], "dlq_rows": shape[1]})
                if place == "q":
                    r = qrows[0]
                    if r["attempts"] != a:
                        return P.fail("C08/sequence/attempts_differ_from_model", {"ops": trace})
                    if (r["locked_until"] is None) != (lk is None) or (lk is not None and r["locked_until"].ms != lk):
                        return P.fail("C08/sequence/lock_differs_from_model", {"ops": trace})
                    if _sec(r["deliver_at"].ms) != _sec(d):
                        return P.fail("C08/sequence/deliver_at_differs_from_model", {"ops": trace})
                elif place == "dlq":
                    if drows[0]["attempts"] != a:
                        return P.fail("C08/sequence/dlq_attempts_differ_from_model", {"ops": trace})
            with hx.native():
                P.reached(tuple(trace) + (place,))
            return True
        finally:
            w.close()


def op_sequence2(o1: int, o2: int, o3: int, dt1: int, dt2: int, dt3: int, a0: int, m: int, delay: int) -> bool:
    """
    pre: 0 <= dt1 <= 130000 and 0 <= dt2 <= 130000 and 0 <= dt3 <= 130000 and 0 <= a0 <= 4 and 1 <= m <= 4 and 0 <= delay <= 130000
    post: _
    """
    # poll first (so that the worker holds a handle), then two arbitrary operations
    return _op_sequence("op_sequence2", [0, o2, o3], [dt1, dt2, dt3], a0, m, delay)


def op_sequence4(o1: int, o2: int, o3: int, o4: int, dt1: int, dt2: int, dt3: int, dt4: int, a0: int, m: int, delay: int) -> bool:
    """
    pre: 0 <= dt1 <= 130000 and 0 <= dt2 <= 130000 and 0 <= dt3 <= 130000 and 0 <= dt4 <= 130000 and 0 <= a0 <= 4 and 1 <= m <= 4 and 0 <= delay <= 130000
    post: _
    """
    return _op_sequence("op_sequence4", [o1, o2, o3, o4], [dt1, dt2, dt3, dt4], a0, m, delay)


class _Die(BaseException):
    pass


def conservation(op: int, a1: int, m1: int, a2: int, m2: int, crash: bool, t: int, crash_at: int) -> bool:
    """
    pre: 0 <= a1 <= 12 and 1 <= m1 <= 12 and 0 <= a2 <= 12 and 1 <= m2 <= 12 and 0 <= t <= 100000
    post: _
    """
    # Ghost ledger of message identities: every identity is in exactly one of {queue, DLQ, acked},
    # also when the operation's commit never happens (crash = the connection rolls back).
    with hx.Path("conservation") as P:
        o = hx.pick(op, 5)
        cr = hx.decide(crash)
        w = _world([_row(1, T0, False, 0, a1, m1, 0, "x"), _row(2, T0, False, 0, a2, m2, 0, "y")])
        try:
            with hx.native():
                w.db.tables["queue_messages_dlq"].append({"id": 1, "original_id": 9, "message_id": "m9", "message_type": "StartStage",
                                                          "payload": _row(9, T0, False, 0, 0, 10, 0, "z")["payload"], "attempts": 10, "error": "e",
                                                          "last_error_at": symdb.Iso(T0), "created_at": symdb.Iso(T0), "moved_at": symdb.Iso(T0)})
                w.db.seq["queue_messages_dlq"] = 1
            symdb.CLOCK.now = T0 + 5000 + t
            q = w.queue
            conn = w.conn()
            acked: list[str] = []
            died = False
            if cr:
                orig_commit = conn.commit
                ncommit = [0]
                nth = 1 + hx.pick(crash_at, 3)  # the process dies at its nth commit (earlier commits are durable)

                def dying_commit() -> None:
                    ncommit[0] += 1
                    if ncommit[0] == nth:
                        conn.rollback()
                        raise _Die()
                    orig_commit()

                conn.commit = dying_commit  # type: ignore[method-assign]
            try:
                if o == 0:
                    q.move_to_dlq(1, "boom")
                elif o == 1:
                    n = q.check_and_move_expired()
                elif o == 2:
                    q.replay_dlq(1)
                elif o == 3:
                    m = q.poll_one()
                    if m is not None and not cr:
                        q.ack(m)
                        acked.append(json.loads(_row(int(m.message_id), 0, False, 0, 0, 0, 0, "x" if m.message_id == "1" else "y")["payload"])["stage_id"])
                else:
                    q.push(StartStage(execution_id="e1", stage_id="new1", created_at=_CREATED))
            except _Die:
                died = True
            finally:
                if cr:
                    conn.commit = orig_commit  # type: ignore[method-assign]
                    conn.rollback()
            if cr and not died:
                return True  # fewer commits than nth: same as the run without a crash
            with hx.native():
                def ident(r):
                    p = r["payload"]
                    return json.loads(p)["stage_id"]

                inq = [ident(r) for r in w.table("queue_messages")]
                indlq = [ident(r) for r in w.table("queue_messages_dlq")]
                P.reached((o, cr, tuple(sorted(inq)), tuple(sorted(indlq))))
                want = {"x1", "y2", "z9"} | ({"new1"} if (o == 4 and not cr) else set())
                everything = inq + indlq + acked
                info = {"op": ["move_to_dlq", "check_and_move_expired", "replay_dlq", "poll+ack", "push"][o], "crash_at_commit": cr,
                        "queue": inq, "dlq": indlq, "acked": acked}
                if sorted(everything) != sorted(want):
                    lost = sorted(want - set(everything))
                    return P.fail("C08/conservation/%s/%s" % (info["op"], "lost" if lost else "duplicated"), info)
            if o == 1 and not cr:
                exp1, exp2 = a1 >= m1, a2 >= m2
                in_dlq = set(indlq)
                if ("x1" in in_dlq) != bool(exp1) or ("y2" in in_dlq) != bool(exp2):
                    return P.fail("C08/dlq/moves_wrong_rows_at_attempt_limit", {"attempts_ge_max": [bool(exp1), bool(exp2)], "dlq": indlq})
            if o == 2 and not cr:
                r = next(r for r in w.table("queue_messages") if ident(r) == "z9")
                if r["attempts"] != 0 or r["message_type"] != "StartStage":
                    return P.fail("C08/dlq/replay_changes_message")
            return True
        finally:
            w.close()


def replay_like_fresh_push(a1: int, m1: int, swept: bool, t: int) -> bool:
    """
    pre: 0 <= a1 <= 12 and 1 <= m1 <= 12 and 0 <= t <= 100000
    post: _
    """
    # A message that went to the DLQ (by an explicit move, or by the expiry sweep) and is replayed is back in the
    # queue like a freshly pushed one: every delivery-relevant column of its row (attempts, max_attempts,
    # locked_until, deliverable now) equals that of a message pushed at the same instant.
    with hx.Path("replay_like_fresh_push") as P:
        sw = hx.decide(swept)
        w = _world([_row(1, T0, False, 0, a1, m1, 0, "x")])
        try:
            symdb.CLOCK.now = T0 + 5000 + t
            q = w.queue
            if sw:
                n = q.check_and_move_expired()
                if not bool(n):
                    return True  # attempts below the limit: the sweep leaves the row alone
            else:
                q.move_to_dlq(1, "boom")
            with hx.native():
                dl = w.table("queue_messages_dlq")
            if len(dl) != 1:
                return P.fail("C08/replay/not_in_dlq_after_move", {"dlq": len(dl)})
            P.reached("moved by %s" % ("sweep" if sw else "move_to_dlq"), {"by": "sweep" if sw else "move_to_dlq"})
            q.replay_dlq(dl[0]["id"])
            q.push(StartStage(execution_id="e1", stage_id="fresh", created_at=_CREATED))
            with hx.native():
                rows = w.table("queue_messages")
                left = w.table("queue_messages_dlq")
            if len(rows) != 2 or left:
                return P.fail("C08/replay/not_exactly_one_copy", {"queue": len(rows), "dlq": len(left)})
            rep = next(r for r in rows if "fresh" not in r["payload"])
            fresh = next(r for r in rows if "fresh" in r["payload"])
            for col in ("attempts", "max_attempts", "locked_until"):
                a_, b_ = rep[col], fresh[col]
                same = (a_ is None and b_ is None) or (a_ is not None and b_ is not None and bool(a_ == b_))
                if not same:
                    return P.fail("C08/replay/replayed_row_differs_from_fresh_push/%s" % col, {"column": col, "replayed": str(a_), "fresh": str(b_)})
            m = q.poll_one()
            if m is None:
                return P.fail("C08/replay/replayed_message_not_deliverable", {})
            return True
        finally:
            w.close()


def dlq_race(k: int, other: int, a1: int) -> bool:
    """
    pre: 1 <= k <= 12 and 3 <= a1 <= 12
    post: _
    """
    # Worker A sweeps an attempts-exhausted message to the DLQ; another worker's operation on the same
    # message runs completely before A's k-th statement (every k): a second sweeper, a direct
    # move_to_dlq, or the holder's ack.  The message must end up in exactly one place.
    from harness.s2util import nest_at

    with hx.Path("dlq_race") as P:
        o = hx.pick(other, 3)
        w = _world([_row(1, T0, False, 0, a1, 3, 0, "x")], qmax=3)
        try:
            symdb.CLOCK.now = T0 + 5000
            qa, qb = w.queue, _second_queue(w, 3)
            acked: list[str] = []

            def run_b() -> None:
                if o == 0:
                    qb.check_and_move_expired()
                elif o == 1:
                    qb.move_to_dlq(1, "peer")
                else:
                    m = StartStage(execution_id="e1", stage_id="x1", created_at=_CREATED)
                    m.message_id = "1"
                    before = len(w.table("queue_messages"))
                    qb.ack(m)
                    if len(w.table("queue_messages")) < before:
                        acked.append("x1")

            st = nest_at(w.conn(), k, run_b, max_k=12)
            qa.check_and_move_expired()
            w.conn().pre_statement = None
            if not st["done"]:
                run_b()
            with hx.native():
                ident = lambda r: json.loads(r["payload"])["stage_id"]  # noqa: E731
                inq = [ident(r) for r in w.table("queue_messages")]
                indlq = [ident(r) for r in w.table("queue_messages_dlq")]
                P.reached((o, st["at"], tuple(inq), tuple(indlq), tuple(acked)))
                info = {"other_worker": ["second sweeper", "move_to_dlq", "ack by the holder"][o], "preempted_before_statement": st["at"], "queue": inq, "dlq": indlq, "acked": acked}
                places = inq + indlq + acked
                if sorted(places) != ["x1"]:
                    return P.fail("C08/dlq_race/%s/%s" % (info["other_worker"].replace(" ", "_"), "lost" if not places else "in_%d_places" % len(places)), info)
            return True
        finally:
            w.close()


PLAN = [
    ("claim_nested", "quick", 280),
    ("dlq_race", "quick", 280),
    ("claim_sequential", "quick", 280),
    ("ack_resched_extend", "quick", 280),
    ("conservation", "quick", 280),
    ("op_sequence2", "quick", 280),
    ("replay_like_fresh_push", "quick", 120),
    ("op_sequence4", "thorough", 3000),
]

META = {
    "functions": ["src/stabilize/queue/sqlite/queue.py:SqliteQueue.poll_one/ack/reschedule/extend_lock/push",
                  "src/stabilize/queue/sqlite/dlq.py:move_to_dlq/replay_dlq/check_and_move_expired", "src/stabilize/queue/sqlite/serialization.py:deserialize_message"],
    "bounds": ["1-2 queue rows + 1 DLQ row; deliver_at, locked_until, clock instants symbolic in a 200 s window at ms resolution (SQL compares at whole seconds); attempts 0..12, max_attempts 1..12, version 0..5 symbolic",
               "operation sequences: one message through poll + 2 (thorough: 4 arbitrary) operations out of {poll, ack, reschedule, extend_lock, sweep, move_to_dlq, replay_dlq} with symbolic time steps (<= 130 s each), attempts 0..4, max_attempts 1..4, against a reference model of (place, deliver_at, locked_until, attempts)",
               "two pollers: the nested interleaving (B between A's SELECT and UPDATE) and the sequential one with an arbitrary delay; crash = the process dies at its n-th commit (n symbolic), earlier commits durable; DLQ sweep raced by a second sweeper / move_to_dlq / the holder's ack before every statement of the sweep"],
    "stubs": ["SymDB instead of SQLite (validated differentially by vf/validate_symdb.py on every run)", "clock: datetime.now and SQL datetime('now') read one symbolic instant set by the harness",
              "ids: uuid4() replaced by a counter"],
    "assumptions": ["queue-level max_attempts equals the row's max_attempts in the claim lemmas (DESIGN O2)", "host time zone UTC"],
}
