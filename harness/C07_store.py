"""C07 - concurrent writers never silently overwrite each other (S2 over SymDB).

The real ``SqliteStageOpsMixin.store_stage``, ``AtomicTransaction.store_stage``, ``upsert_task`` and
``store.transaction()`` run under full CrossHair tracing; the durable version, the caller's version
and the task versions are symbolic integers, the durable status / expected phase are solver-chosen.
"""
from __future__ import annotations

from harness.s2util import ST, row_of, same_cell, second_store, seed_stage, set_cells
from vf import hx, world2

from stabilize.errors import ConcurrencyError  # noqa: E402
from stabilize.models.status import WorkflowStatus  # noqa: E402

FRAME = ["id", "execution_id", "ref_id", "type", "name", "requisite_stage_ref_ids", "parent_stage_id", "synthetic_stage_owner",
         "start_time_expiry", "scheduled_time", "join_type", "join_threshold", "split_type", "split_conditions", "mi_config",
         "deferred_choice_group", "milestone_ref_id", "milestone_status", "mutex_key", "cancel_region"]


def _cas(rv, sv, rs_sym, phase_sym, new_sym, txn: bool, fail_after: bool, name: str) -> bool:
    with hx.Path(name) as P:
        rs = ST[hx.pick(rs_sym, 12)]
        pk = hx.pick(phase_sym, 13)
        phase = None if pk == 0 else ST[pk - 1].name
        new = [WorkflowStatus.RUNNING, WorkflowStatus.SUCCEEDED, WorkflowStatus.NOT_STARTED][hx.pick(new_sym, 3)]
        w = world2.SWorld(name="cas")
        try:
            wf, st = seed_stage(w, ntasks=1, extra_stage=True)
            set_cells(w, "stage_executions", st.id, version=rv, status=rs.name)
            before = dict(row_of(w, "stage_executions", st.id))
            other_before = dict(next(r for r in w.table("stage_executions") if r["ref_id"] == "other"))
            st.version = sv
            st.status = new
            st.context = {"c0": 1, "mine": 7}
            st.outputs = {"o0": 2, "out": 8}
            st.start_time = 111
            raised = False
            try:
                if txn:
                    with w.store.transaction(w.queue) as t:
                        t.store_stage(st, expected_phase=phase)
                        if fail_after:
                            raise ConcurrencyError("injected after the write")
                else:
                    w.store.store_stage(st, expected_phase=phase)
            except ConcurrencyError:
                raised = True
            row = row_of(w, "stage_executions", st.id)
            should = bool(rv == sv) and (phase is None or phase == rs.name)
            with hx.native():
                P.reached((rs.name, phase, new.name, txn, fail_after, should))
            info = {"row_status": rs.name, "expected_phase": phase, "transactional": txn, "versions_equal": bool(rv == sv)}
            committed = should and not (txn and fail_after)
            if raised == committed:
                return P.fail("C07/cas/%s" % ("stale_write_accepted" if raised is False else "fresh_write_rejected"), info)
            if committed:
                if row["version"] != rv + 1 or row["status"] != new.name or st.version != sv + 1:
                    return P.fail("C07/cas/version_or_status_not_advanced", info)
                if row["start_time"] != 111:
                    return P.fail("C07/cas/written_column_differs_from_caller")
                from vf import symdb

                ctx = row["context"]
                ctx = ctx.obj if isinstance(ctx, symdb.JText) else __import__("json").loads(ctx)
                if ctx != {"c0": 1, "mine": 7}:
                    return P.fail("C07/cas/context_not_saved")
            else:
                for c in before:
                    if not same_cell(row[c], before[c]):
                        return P.fail("C07/cas/rejected_write_left_traces/%s" % c, info)
                if st.version != sv:
                    return P.fail("C07/cas/in_memory_version_not_restored", info)
                # nothing of the failed call may become durable with the caller's next commit
                w.conn().commit()
                row2 = row_of(w, "stage_executions", st.id)
                for c in before:
                    if not same_cell(row2[c], before[c]):
                        return P.fail("C07/cas/partial_write_became_durable_later/%s" % c, info)
            for c in FRAME:
                if not same_cell(row[c], before[c]):
                    return P.fail("C07/frame/save_altered_untouched_column/%s" % c)
            other = next(r for r in w.table("stage_executions") if r["ref_id"] == "other")
            for c in other_before:
                if not same_cell(other[c], other_before[c]):
                    return P.fail("C07/frame/save_altered_another_stage")
            return True
        finally:
            w.close()


def store_stage_cas(rv: int, sv: int, rs: int, phase: int, new: int) -> bool:
    """
    pre: 0 <= rv <= 1000 and 0 <= sv <= 1000
    pre: 0 <= phase <= 3
    post: _
    """
    return _cas(rv, sv, rs, phase, new, False, False, "store_stage_cas")


def txn_store_stage_cas(rv: int, sv: int, rs: int, phase: int, new: int, fail_after: bool) -> bool:
    """
    pre: 0 <= rv <= 1000 and 0 <= sv <= 1000
    pre: 0 <= phase <= 3
    post: _
    """
    return _cas(rv, sv, rs, phase, new, True, hx.decide(fail_after), "txn_store_stage_cas")


def store_stage_cas_allphases(rv: int, sv: int, rs: int, phase: int) -> bool:
    """
    pre: 0 <= rv <= 50 and 0 <= sv <= 50
    post: _
    """
    return _cas(rv, sv, rs, phase, 1, True, False, "txn_store_stage_cas_all")


def upsert_task_cas(present: bool, tv: int, cv: int, new: int, txn: bool) -> bool:
    """
    pre: 0 <= tv <= 1000 and 0 <= cv <= 1000
    post: _
    """
    with hx.Path("upsert_task_cas") as P:
        pres = hx.decide(present)
        tx = hx.decide(txn)
        newst = ST[hx.pick(new, 12)]
        w = world2.SWorld(name="task")
        try:
            wf, st = seed_stage(w, ntasks=2)
            t0, t1 = st.tasks
            if pres:
                set_cells(w, "task_executions", t1.id, version=tv)
            else:
                with hx.native():
                    w.db.tables["task_executions"][:] = [r for r in w.db.tables["task_executions"] if r["id"] != t1.id]
            t1.version = cv
            t1.status = newst
            t0_before = dict(row_of(w, "task_executions", t0.id))
            raised = False
            try:
                if tx:
                    with w.store.transaction(w.queue) as t:
                        t.store_stage(st)
                else:
                    w.store.store_stage(st)
            except ConcurrencyError:
                raised = True
            rows = [r for r in w.table("task_executions") if r["id"] == t1.id]
            with hx.native():
                P.reached((pres, tx, newst.name, raised))
            if not pres:
                if raised or len(rows) != 1 or rows[0]["version"] != 0 or rows[0]["status"] != newst.name:
                    return P.fail("C07/task/absent_task_not_inserted_with_version_0")
                return True
            same = bool(tv == cv)
            if same:
                if raised or rows[0]["version"] != tv + 1 or rows[0]["status"] != newst.name or t1.version != cv + 1:
                    return P.fail("C07/task/fresh_task_write_rejected_or_not_advanced")
            else:
                if not raised:
                    return P.fail("C07/task/stale_task_write_accepted")
                if rows[0]["version"] != tv or rows[0]["status"] != "NOT_STARTED":
                    return P.fail("C07/task/rejected_task_write_left_traces")
                srow = row_of(w, "stage_executions", st.id)
                if tx and (srow["version"] != 0 or st.version != 0):
                    return P.fail("C07/task/stage_part_of_failed_transaction_is_durable")
                w.conn().commit()
                t0_after = row_of(w, "task_executions", t0.id)
                if tx and not same_cell(t0_after["version"], t0_before["version"]):
                    return P.fail("C07/task/sibling_task_write_of_failed_transaction_is_durable")
            return True
        finally:
            w.close()


def two_writers(v0: int, order: int, txn1: bool, txn2: bool) -> bool:
    """
    pre: 0 <= v0 <= 1000
    post: _
    """
    # Two read-modify-write sequences through the public store API on one stage; every interleaving
    # of their statements that SQLite's writer lock allows (reads commute, each write+commit is
    # atomic): R1 R2 W1 W2 | R1 R2 W2 W1 | R1 W1 R2 W2 | R2 W2 R1 W1.
    with hx.Path("two_writers") as P:
        o = hx.pick(order, 4)
        tx = [hx.decide(txn1), hx.decide(txn2)]
        w = world2.SWorld(name="two")
        try:
            wf, st = seed_stage(w, ntasks=1, status=WorkflowStatus.RUNNING)
            set_cells(w, "stage_executions", st.id, version=v0)
            stores = [w.store, second_store(w)]
            local: list = [None, None]
            ok = [None, None]

            def read(i: int) -> None:
                local[i] = stores[i].retrieve_stage(st.id)

            def write(i: int) -> None:
                s = local[i]
                s.context["w%d" % i] = i + 10
                s.outputs["o%d" % i] = i + 20
                try:
                    if tx[i]:
                        with stores[i].transaction(w.queue) as t:
                            t.store_stage(s)
                    else:
                        stores[i].store_stage(s)
                    ok[i] = True
                except ConcurrencyError:
                    ok[i] = False

            plan = [[("r", 0), ("r", 1), ("w", 0), ("w", 1)], [("r", 0), ("r", 1), ("w", 1), ("w", 0)],
                    [("r", 0), ("w", 0), ("r", 1), ("w", 1)], [("r", 1), ("w", 1), ("r", 0), ("w", 0)]][o]
            for kind, i in plan:
                (read if kind == "r" else write)(i)
            row = row_of(w, "stage_executions", st.id)
            from vf import symdb

            ctx = row["context"]
            ctx = ctx.obj if isinstance(ctx, symdb.JText) else __import__("json").loads(ctx)
            with hx.native():
                P.reached((o, tuple(tx), tuple(ok)))
                info = {"order": o, "transactional": tx, "succeeded": ok, "context": ctx}
            serial = o >= 2
            if serial:
                if ok != [True, True]:
                    return P.fail("C07/two_writers/serial_writers_rejected", info)
            else:
                if ok[0] and ok[1]:
                    return P.fail("C07/two_writers/lost_update_both_saves_on_one_version_succeeded", info)
                if not (ok[0] or ok[1]):
                    return P.fail("C07/two_writers/both_rejected", info)
            for i in (0, 1):
                has = ("w%d" % i) in ctx
                if bool(ok[i]) != has:
                    return P.fail("C07/two_writers/%s" % ("committed_change_lost" if ok[i] else "rejected_change_visible"), info)
            if row["version"] != v0 + (1 if ok[0] else 0) + (1 if ok[1] else 0):
                return P.fail("C07/two_writers/version_not_count_of_successful_saves", info)
            return True
        finally:
            w.close()


def two_writers_nested(v0: int, k: int, txn1: bool, txn2: bool, phase: bool, with_task: bool) -> bool:
    """
    pre: 0 <= v0 <= 1000 and 1 <= k <= 14
    post: _
    """
    # Statement-level interleaving: both writers have read version v0; writer B's complete save
    # runs just before writer A's k-th SQL statement (every k; positions inside A's open write
    # transaction slip to the next statement outside one, as SQLite would make B wait).  Whatever
    # the position: never two successful saves on one version, and what is durable is the winner's.
    from harness.s2util import nest_at

    with hx.Path("two_writers_nested") as P:
        tx = [hx.decide(txn1), hx.decide(txn2)]
        ph = hx.decide(phase)
        nt = 1 if hx.decide(with_task) else 0  # a task row's own version check must not be what saves the stage row
        w = world2.SWorld(name="nested")
        try:
            wf, st = seed_stage(w, ntasks=nt, status=WorkflowStatus.RUNNING)
            set_cells(w, "stage_executions", st.id, version=v0)
            stores = [w.store, second_store(w)]
            local = [stores[0].retrieve_stage(st.id), stores[1].retrieve_stage(st.id)]
            ok: list = [None, None]

            def write(i: int) -> None:
                s = local[i]
                s.context["w%d" % i] = i + 10
                try:
                    if tx[i]:
                        with stores[i].transaction(w.queue) as t:
                            t.store_stage(s, expected_phase="RUNNING") if ph else t.store_stage(s)
                    else:
                        stores[i].store_stage(s, expected_phase="RUNNING") if ph else stores[i].store_stage(s)
                    ok[i] = True
                except ConcurrencyError:
                    ok[i] = False

            stt = nest_at(w.conn(), k, lambda: write(1), max_k=14)
            write(0)
            w.conn().pre_statement = None
            if not stt["done"]:
                write(1)
            for c in (w.conn(), stores[1]._get_connection()):
                c.commit()  # whatever a rejected save left pending must not become durable with the caller's next commit
            row = row_of(w, "stage_executions", st.id)
            from vf import symdb

            ctx = row["context"]
            ctx = ctx.obj if isinstance(ctx, symdb.JText) else __import__("json").loads(ctx)
            with hx.native():
                P.reached((tuple(tx), ph, nt, stt["at"], tuple(ok)))
                info = {"transactional": tx, "expected_phase": ph, "tasks": nt, "B_ran_before_A_statement": stt["at"], "succeeded": ok, "context_keys": sorted(k_ for k_ in ctx if k_.startswith("w"))}
            if ok[0] and ok[1]:
                return P.fail("C07/two_writers_nested/lost_update_both_saves_on_one_version_succeeded", info)
            if not (ok[0] or ok[1]):
                return P.fail("C07/two_writers_nested/both_rejected", info)
            for i in (0, 1):
                if bool(ok[i]) != (("w%d" % i) in ctx):
                    return P.fail("C07/two_writers_nested/%s" % ("committed_change_lost" if ok[i] else "rejected_change_visible"), info)
            if row["version"] != v0 + 1:
                return P.fail("C07/two_writers_nested/version_not_incremented_exactly_once", info)
            return True
        finally:
            w.close()


def three_writers_nested(v0: int, k: int, k2: int, txn: bool) -> bool:
    """
    pre: 0 <= v0 <= 1000 and 1 <= k <= 8 and 1 <= k2 <= 8
    post: _
    """
    # Three writers that all read version v0: C's whole save runs before B's k2-th statement, and
    # B's (with C inside) before A's k-th.  Exactly one save succeeds, whatever the positions.
    from harness.s2util import nest_at

    with hx.Path("three_writers_nested") as P:
        tx = hx.decide(txn)
        w = world2.SWorld(name="nested3")
        try:
            wf, st = seed_stage(w, ntasks=0, status=WorkflowStatus.RUNNING)
            set_cells(w, "stage_executions", st.id, version=v0)
            stores = [w.store, second_store(w), second_store(w)]
            local = [s_.retrieve_stage(st.id) for s_ in stores]
            ok: list = [None, None, None]

            def write(i: int) -> None:
                s = local[i]
                s.context["w%d" % i] = i + 10
                try:
                    if tx:
                        with stores[i].transaction(w.queue) as t:
                            t.store_stage(s)
                    else:
                        stores[i].store_stage(s)
                    ok[i] = True
                except ConcurrencyError:
                    ok[i] = False
                    stores[i]._get_connection().rollback()  # the rejected writer gives up its implicit transaction before anyone else writes

            conn_b = stores[1]._get_connection()

            def write_b() -> None:
                stc = nest_at(conn_b, k2, lambda: write(2), max_k=8)
                write(1)
                conn_b.pre_statement = None
                if not stc["done"]:
                    write(2)

            sta = nest_at(w.conn(), k, write_b, max_k=8)
            write(0)
            w.conn().pre_statement = None
            if not sta["done"]:
                write_b()
            for c in (w.conn(), conn_b, stores[2]._get_connection()):
                c.commit()
            row = row_of(w, "stage_executions", st.id)
            from vf import symdb

            ctx = row["context"]
            ctx = ctx.obj if isinstance(ctx, symdb.JText) else __import__("json").loads(ctx)
            with hx.native():
                P.reached((tx, sta["at"], tuple(ok)))
                info = {"transactional": tx, "B_before_A_statement": sta["at"], "succeeded": ok, "context_keys": sorted(k_ for k_ in ctx if k_.startswith("w"))}
            if sum(1 for x in ok if x) != 1:
                return P.fail("C07/three_writers_nested/%s" % ("lost_update_several_saves_on_one_version_succeeded" if sum(1 for x in ok if x) > 1 else "all_rejected"), info)
            for i in range(3):
                if bool(ok[i]) != (("w%d" % i) in ctx):
                    return P.fail("C07/three_writers_nested/%s" % ("committed_change_lost" if ok[i] else "rejected_change_visible"), info)
            if row["version"] != v0 + 1:
                return P.fail("C07/three_writers_nested/version_not_incremented_exactly_once", info)
            return True
        finally:
            w.close()


def retry_reloads(v0: int, bump: int) -> bool:
    """
    pre: 0 <= v0 <= 1000 and 1 <= bump <= 3
    post: _
    """
    # retry_on_concurrency_error re-runs the body, and the body's reload sees the winner's row.
    from stabilize.handlers.base import StabilizeHandler
    from stabilize.resilience.config import HandlerConfig

    class H(StabilizeHandler):
        @property
        def message_type(self):  # pragma: no cover
            return object

        def handle(self, message) -> None:  # pragma: no cover
            pass

    with hx.Path("retry_reloads") as P:
        w = world2.SWorld(name="retry")
        try:
            wf, st = seed_stage(w, ntasks=1, status=WorkflowStatus.RUNNING)
            set_cells(w, "stage_executions", st.id, version=v0)
            other = second_store(w)
            h = H(w.queue, w.store, handler_config=HandlerConfig(concurrency_max_retries=3, concurrency_min_delay_ms=1, concurrency_max_delay_ms=2))
            calls = []
            seen_versions = []

            def body() -> None:
                s = w.store.retrieve_stage(st.id)
                seen_versions.append(s.version)
                if not calls:
                    o = other.retrieve_stage(st.id)  # the winner commits between our read and our write
                    o.context["winner"] = 1
                    other.store_stage(o)
                calls.append(1)
                s.context["loser"] = 2
                w.store.store_stage(s)

            h.retry_on_concurrency_error(body, "test")
            row = row_of(w, "stage_executions", st.id)
            from vf import symdb

            ctx = row["context"]
            ctx = ctx.obj if isinstance(ctx, symdb.JText) else __import__("json").loads(ctx)
            with hx.native():
                P.reached(len(calls))
            if len(calls) != 2:
                return P.fail("C07/retry/body_not_rerun_after_conflict", {"calls": len(calls)})
            if not (seen_versions[1] == v0 + 1):
                return P.fail("C07/retry/rerun_did_not_reload_fresh_row")
            if ctx.get("winner") != 1 or ctx.get("loser") != 2 or row["version"] != v0 + 2:
                return P.fail("C07/retry/one_of_the_two_changes_lost", {"context": ctx})
            return True
        finally:
            w.close()


PLAN = [
    ("store_stage_cas", "quick", 280),
    ("txn_store_stage_cas", "quick", 280),
    ("upsert_task_cas", "quick", 280),
    ("two_writers", "quick", 280),
    ("two_writers_nested", "quick", 280),
    ("three_writers_nested", "quick", 280),
    ("retry_reloads", "quick", 120),
    ("store_stage_cas_allphases", "thorough", 1500),
]

META = {
    "functions": ["src/stabilize/persistence/sqlite/store/stage_ops.py:store_stage/retrieve_stage", "src/stabilize/persistence/sqlite/transaction.py:AtomicTransaction.store_stage/rollback_versions",
                  "src/stabilize/persistence/sqlite/store/store.py:SqliteWorkflowStore.transaction", "src/stabilize/persistence/sqlite/helpers.py:upsert_task/insert_stage",
                  "src/stabilize/handlers/base.py:retry_on_concurrency_error"],
    "bounds": ["one stage (+ one bystander stage), 1-2 tasks; durable and caller versions symbolic in [0,1000]; durable status all 12, expected phase {none, 3 statuses} (all 13 in the thorough tier); new status one of {RUNNING, SUCCEEDED, NOT_STARTED}",
               "two writers: the four operation interleavings, plain and transactional saves; one retry round; statement level: writer B's whole save before writer A's k-th statement, k in [1,14] symbolic, with and without expected_phase"],
    "stubs": ["SymDB instead of SQLite (validated differentially on every run)", "ids: ULID() replaced by a counter"],
    "assumptions": ["a second writer cannot start writing before the first commits or rolls back (SQLite single-writer rule)"],
}
