"""C19 - what is stored or queued is read back unchanged (S2 over SymDB, json stub on).

``store.store`` / ``retrieve`` / ``retrieve_stage`` (insert_stage, upsert_task, execution_to_dict and
the row_to_* converters) and both message serialisers (``SqliteQueue.push`` and
``AtomicTransaction.push_message``) + ``poll_one`` / ``deserialize_message`` run under CrossHair.
Integer and boolean fields and the leaves of context / outputs / payload dicts are symbolic; enum
members and strings are solver-chosen from small sets.  CPython's json is replaced by a stub with
the contract loads(dumps(x)) == x, so the claim is: the code hands every value to json untouched
and returns what json gives back.
"""
from __future__ import annotations

import dataclasses
import datetime as _dt

from vf import hx, symdb, world2

world2.install(json_stub=True)

from stabilize.models.stage import JoinType, SplitType, StageExecution, SyntheticStageOwner  # noqa: E402
from stabilize.models.status import WorkflowStatus  # noqa: E402
from stabilize.models.task import TaskExecution  # noqa: E402
from stabilize.models.workflow import Workflow, WorkflowType  # noqa: E402
from stabilize.queue.messages import MESSAGE_TYPES  # noqa: E402

_CREATED = _dt.datetime(2024, 1, 1)
ST = list(WorkflowStatus)
STRS = ["", "a", "ü \"'\\", "x" * 300, "CANCELED", "STAGE_AFTER", "null"]  # the last three: free text that spells an enum member / a JSON literal
MSG_STRS = ["", "a", "ü \"'\\", "RUNNING", "STAGE_BEFORE", "true"]
JT = list(JoinType)
SP = list(SplitType)
OWN = [None, SyntheticStageOwner.STAGE_BEFORE, SyntheticStageOwner.STAGE_AFTER]
WT = list(WorkflowType)


def _nested(i, b, s: str):
    return {"n": i, "f": b, "s": s, "none": None, "nest": {"x": i, "l": [i, s, {"deep": b}]}, "empty": {}, "el": []}


def _build(i1, i2, i3, i4, b1, b2, s: str, wst, sst, t1st, t2st, jt, sp, own, wt):
    t1 = TaskExecution.create(name="first" + s, implementing_class="cls", stage_start=True, stage_end=False)
    t2 = TaskExecution.create(name="second", implementing_class="cls2", stage_start=False, stage_end=True)
    t1.status, t2.status = t1st, t2st
    t1.start_time, t1.end_time = i1, i2
    t2.loop_start, t2.loop_end = b1, b2
    t1.task_exception_details = {"exception": {"details": {"error": s, "code": i3}}}
    s0 = StageExecution(ref_id="s0", name="S0" + s, type="t", status=sst, context=_nested(i1, b1, s), outputs=_nested(i2, b2, s),
                        tasks=[t1, t2], start_time=i3, end_time=i4, start_time_expiry=i1, scheduled_time=i2,
                        join_type=jt, join_threshold=(i4 if jt != JoinType.N_OF_M else 2), split_type=sp, split_conditions={"s1": "x > 1", "k" + s: s},
                        deferred_choice_group=(s or None), milestone_ref_id="s1", milestone_status=sst.name, mutex_key=(s or None), cancel_region="r" + s)
    s1 = StageExecution(ref_id="s1", name="S1", type="u", requisite_stage_ref_ids={"s0"}, context={"only": i4}, outputs={},
                        synthetic_stage_owner=own, parent_stage_id=(s0.id if own is not None else None))
    wf = Workflow(application="app" + s, name="w" + s, type=wt, status=wst, stages=[s0, s1], context=_nested(i3, b2, s), start_time=i1, end_time=i2,
                  start_time_expiry=i3, is_canceled=b1, canceled_by=(s or None), cancellation_reason=s, pipeline_config_id="cfg" + s,
                  is_limit_concurrent=b2, max_concurrent_executions=i4, keep_waiting_pipelines=b1, origin="o" + s)
    return wf, s0, s1, t1, t2


STAGE_FIELDS = ["id", "ref_id", "type", "name", "status", "context", "outputs", "requisite_stage_ref_ids", "parent_stage_id", "synthetic_stage_owner",
                "start_time", "end_time", "start_time_expiry", "scheduled_time", "version", "join_type", "join_threshold", "split_type", "split_conditions",
                "deferred_choice_group", "milestone_ref_id", "milestone_status", "mutex_key", "cancel_region"]
TASK_FIELDS = ["id", "name", "implementing_class", "status", "start_time", "end_time", "stage_start", "stage_end", "loop_start", "loop_end", "task_exception_details", "version"]
WF_FIELDS = ["id", "type", "application", "name", "status", "context", "start_time", "end_time", "start_time_expiry", "is_canceled", "canceled_by",
             "cancellation_reason", "pipeline_config_id", "is_limit_concurrent", "max_concurrent_executions", "keep_waiting_pipelines", "origin"]


def _cmp(P, what: str, a, b, fields: list[str]):
    for f in fields:
        x, y = getattr(a, f), getattr(b, f)
        if isinstance(x, bool) or isinstance(y, bool):
            same = bool(x) == bool(y)
        else:
            same = x == y
        if not same:
            return P.fail("C19/roundtrip/%s.%s_differs" % (what, f), {"field": f})
    return None


def _roundtrip(i1, i2, i3, i4, b1, b2, s, wst, sst, t1st, t2st, jt, sp, own, wt, name: str) -> bool:
    with hx.Path(name) as P:
        w = world2.SWorld(name="rt", json_stub=True)
        try:
            wf, s0, s1, t1, t2 = _build(i1, i2, i3, i4, b1, b2, s, wst, sst, t1st, t2st, jt, sp, own, wt)
            w.store.store(wf)
            got = w.store.retrieve(wf.id)
            with hx.native():
                P.reached((s[:3], wst.name, sst.name, t1st.name, jt.name, sp.name, str(own), wt.name))
            bad = _cmp(P, "workflow", wf, got, WF_FIELDS)
            if bad is not None:
                return bad
            if [x.ref_id for x in got.stages] != ["s0", "s1"]:
                return P.fail("C19/roundtrip/stage_set_or_order_differs")
            for orig, back in zip([s0, s1], got.stages):
                bad = _cmp(P, "stage", orig, back, STAGE_FIELDS)
                if bad is not None:
                    return bad
                if [t.id for t in back.tasks] != [t.id for t in orig.tasks]:
                    return P.fail("C19/roundtrip/task_order_differs")
                for to, tb in zip(orig.tasks, back.tasks):
                    bad = _cmp(P, "task", to, tb, TASK_FIELDS)
                    if bad is not None:
                        return bad
            one = w.store.retrieve_stage(s0.id)
            bad = _cmp(P, "retrieve_stage", s0, one, STAGE_FIELDS)
            if bad is not None:
                return bad
            if [t.id for t in one.tasks] != [t1.id, t2.id]:
                return P.fail("C19/roundtrip/retrieve_stage_task_order_differs")
            # a later save of the stage re-writes the tasks: order must survive (ORDER BY id = creation order)
            one.context["later"] = i2
            w.store.store_stage(one)
            again = w.store.retrieve_stage(s0.id)
            if [t.id for t in again.tasks] != [t1.id, t2.id] or again.context.get("later") != i2:
                return P.fail("C19/roundtrip/task_order_or_context_after_resave")
            return True
        finally:
            w.close()


def roundtrip_values(i1: int, i2: int, i3: int, i4: int, b1: bool, b2: bool, sk: int) -> bool:
    """
    pre: i4 >= 0
    post: _
    """
    s = STRS[hx.pick(sk, len(STRS))]
    return _roundtrip(i1, i2, i3, i4, b1, b2, s, ST[4], ST[1], ST[4], ST[0], JT[0], SP[0], None, WT[0], "roundtrip_values")


def roundtrip_enums_workflow(wst: int, wt: int) -> bool:
    """
    post: _
    """
    return _roundtrip(1, 2, 3, 4, True, False, "a", ST[hx.pick(wst, 12)], ST[1], ST[4], ST[0], JT[1], SP[1], OWN[2], WT[hx.pick(wt, len(WT))], "roundtrip_enums_w")


def roundtrip_enums_stage(jt: int, sp: int, own: int) -> bool:
    """
    post: _
    """
    return _roundtrip(1, 2, 3, 4, True, False, "a", ST[5], ST[1], ST[4], ST[0], JT[hx.pick(jt, len(JT))], SP[hx.pick(sp, len(SP))],
                      OWN[hx.pick(own, 3)], WT[0], "roundtrip_enums_s")


def roundtrip_statuses(sst: int, t1st: int, t2st: int) -> bool:
    """
    post: _
    """
    return _roundtrip(1, 2, 3, 4, False, True, "", ST[2], ST[hx.pick(sst, 12)], ST[hx.pick(t1st, 12)], ST[hx.pick(t2st, 12)], JT[4], SP[1], OWN[1], WT[0], "roundtrip_statuses")


CLASSES = sorted(MESSAGE_TYPES)


RESAVE_STAGE = ["status", "context", "outputs", "start_time", "end_time"]
RESAVE_TASK = ["name", "implementing_class", "status", "start_time", "end_time", "stage_start", "stage_end", "loop_start", "loop_end", "task_exception_details"]


def _mutate(stage, mode: int, i) -> None:
    """Second (third) value of every field that a later save of a stage may change."""
    if mode == 0:  # emptied / cleared (what reset_stage_for_retry does)
        stage.status = WorkflowStatus.NOT_STARTED
        stage.context, stage.outputs = {}, {}
        stage.start_time = stage.end_time = None
        for t in stage.tasks:
            t.status = WorkflowStatus.NOT_STARTED
            t.start_time = t.end_time = None
            t.task_exception_details = {}
            t.loop_start = t.loop_end = False
    elif mode == 1:  # falsy but present
        stage.status = WorkflowStatus.RUNNING
        stage.context, stage.outputs = {"z": 0, "e": "", "n": None, "f": False}, {"z": 0}
        stage.start_time = stage.end_time = 0
        for t in stage.tasks:
            t.status = WorkflowStatus.RUNNING
            t.start_time = t.end_time = 0
            t.task_exception_details = {"k": {}}
            t.loop_start, t.loop_end = True, False
    else:  # new non-empty values
        stage.status = WorkflowStatus.TERMINAL
        stage.context, stage.outputs = {"new": i, "nest": {"l": [i]}}, {"o": i + 1}
        stage.start_time, stage.end_time = i, i + 5
        for t in stage.tasks:
            t.status = WorkflowStatus.TERMINAL
            t.start_time, t.end_time = i + 1, i + 2
            t.task_exception_details = {"exception": {"details": {"error": "second", "code": i}}}
            t.loop_start, t.loop_end = False, True


def resave_roundtrip(via_txn: bool, m1: int, m2: int, i: int) -> bool:
    """
    post: _
    """
    # store, then save the stage again twice with changed values (cleared / falsy / new, every
    # ordered pair): what is read back is what was saved last, never an older value.
    with hx.Path("resave_roundtrip") as P:
        vt = hx.decide(via_txn)
        a, b = hx.pick(m1, 3), hx.pick(m2, 3)
        w = world2.SWorld(name="resave", json_stub=True)
        try:
            wf, s0, s1, t1, t2 = _build(i, i + 1, i + 2, 3, True, False, "a", ST[1], ST[1], ST[4], ST[1], JT[0], SP[0], None, WT[0])
            w.store.store(wf)
            cur = w.store.retrieve_stage(s0.id)
            for step, mode in enumerate((a, b)):
                _mutate(cur, mode, i + 10 * step)
                v_before = cur.version
                if vt:
                    with w.store.transaction(w.queue) as txn:
                        txn.store_stage(cur)
                else:
                    w.store.store_stage(cur)
                back = w.store.retrieve_stage(s0.id)
                with hx.native():
                    P.reached((vt, a, b, step))
                    info = {"via_transaction": vt, "saves": [["cleared", "falsy", "new"][x] for x in (a, b)][: step + 1]}
                for f in RESAVE_STAGE:
                    if getattr(back, f) != getattr(cur, f):
                        return P.fail("C19/resave/stage.%s_is_not_what_was_saved_last" % f, {**info, "field": f})
                if [t.id for t in back.tasks] != [t1.id, t2.id]:
                    return P.fail("C19/resave/task_order_differs", info)
                for to, tb in zip(cur.tasks, back.tasks):
                    for f in RESAVE_TASK:
                        x, y = getattr(to, f), getattr(tb, f)
                        same = (bool(x) == bool(y)) if isinstance(x, bool) or isinstance(y, bool) else x == y
                        if not same:
                            return P.fail("C19/resave/task.%s_is_not_what_was_saved_last" % f, {**info, "field": f})
                if back.version != v_before + 1:
                    return P.fail("C19/resave/version_not_incremented_by_one", info)
                full = w.store.retrieve(wf.id)
                fs = next(x for x in full.stages if x.id == s0.id)
                if fs.context != cur.context or fs.outputs != cur.outputs or [t.task_exception_details for t in fs.tasks] != [t.task_exception_details for t in cur.tasks]:
                    return P.fail("C19/resave/retrieve_differs_from_retrieve_stage", info)
                cur = back
            return True
        finally:
            w.close()


class _Boom(Exception):
    pass


def rollback_retry_roundtrip(phase: bool, fail_kind: int, i: int) -> bool:
    """
    post: _
    """
    # A transaction saves the stage and then fails (an exception after store_stage, or a failing
    # second statement); it rolls back.  The same in-memory object - unchanged - is saved again and
    # the transaction commits.  What is read back is what that object holds (context / outputs included).
    with hx.Path("rollback_retry_roundtrip") as P:
        ph = hx.decide(phase)
        fk = hx.pick(fail_kind, 2)
        w = world2.SWorld(name="rbretry", json_stub=True)
        try:
            wf, s0, s1, t1, t2 = _build(i, i + 1, i + 2, 3, True, False, "a", ST[1], ST[1], ST[4], ST[1], JT[0], SP[0], None, WT[0])
            w.store.store(wf)
            cur = w.store.retrieve_stage(s0.id)
            cur.context = {"progress": i, "nest": {"l": [i, "x"]}}
            cur.outputs = {"result": i + 7}
            cur.status = WorkflowStatus.RUNNING
            failed = False
            try:
                with w.store.transaction(w.queue) as txn:
                    txn.store_stage(cur, expected_phase="RUNNING") if ph else txn.store_stage(cur)
                    if fk == 0:
                        raise _Boom("fault after the stage was written")
                    txn.store_stage(cur)  # a second write of the same object inside the transaction: stale version -> ConcurrencyError
            except Exception:
                failed = True
            with hx.native():
                P.reached((ph, fk, failed))
            if not failed:
                return True
            mid = w.store.retrieve_stage(s0.id)
            if mid.context.get("progress") == i and "progress" not in s0.context:
                return P.fail("C19/rollback_retry/rolled_back_write_is_visible", {"fail_kind": fk})
            with w.store.transaction(w.queue) as txn:
                txn.store_stage(cur, expected_phase="RUNNING") if ph else txn.store_stage(cur)
            back = w.store.retrieve_stage(s0.id)
            for f in ("status", "context", "outputs", "start_time", "end_time"):
                if getattr(back, f) != getattr(cur, f):
                    return P.fail("C19/rollback_retry/stage.%s_is_not_what_the_retry_saved" % f, {"with_expected_phase": ph, "fail_kind": ["exception", "second write"][fk], "field": f})
            full = next(x for x in w.store.retrieve(wf.id).stages if x.id == s0.id)
            if full.context != cur.context or full.outputs != cur.outputs:
                return P.fail("C19/rollback_retry/retrieve_differs_from_retrieve_stage", {})
            return True
        finally:
            w.close()


def _fill(cls, i1, i2, b, s: str, st, ost, phase):
    kw = {}
    for f in dataclasses.fields(cls):
        n = f.name
        if n in ("message_id", "created_at", "attempts", "max_attempts", "last_error", "last_error_type"):
            continue
        if n == "status":
            kw[n] = st
        elif n == "original_status":
            kw[n] = ost
        elif n == "phase":
            kw[n] = phase
        elif n in ("retry_count",) or str(f.type).replace(" ", "") in ("int", "int|None", "Optional[int]"):
            kw[n] = i1
        elif n in ("purge_queue", "persistent"):
            kw[n] = b
        elif n in ("jump_context", "jump_outputs", "signal_data", "instance_context"):
            kw[n] = {"i": i2, "b": b, "s": s, "nest": {"l": [i1, s], "n": None}}
        elif f.type in ("str", str) or "str" in str(f.type):
            kw[n] = s if s in ("RUNNING", "STAGE_BEFORE", "true") else n + ":" + s  # free text that spells an enum member stays text
        else:
            raise hx.HarnessError("message field %s.%s of unknown kind %r" % (cls.__name__, n, f.type))
    return cls(created_at=_CREATED, **kw), kw


def _message(ck, via_txn: bool, i1, i2, b, sk, stk, ostk, phk, name: str) -> bool:
    with hx.Path(name) as P:
        cls = MESSAGE_TYPES[CLASSES[hx.pick(ck, len(CLASSES))]]
        s = MSG_STRS[hx.pick(sk, len(MSG_STRS))]
        has_status = any(f.name == "status" for f in dataclasses.fields(cls))
        st = ST[hx.pick(stk, 12)] if has_status else ST[4]
        ok_ = hx.pick(ostk, 13) if has_status else 0
        ost = None if ok_ == 0 else ST[ok_ - 1]
        has_phase = any(f.name == "phase" for f in dataclasses.fields(cls))
        phase = OWN[1 + hx.pick(phk, 2)] if has_phase else None
        via = hx.decide(via_txn)
        w = world2.SWorld(name="msg", json_stub=True)
        try:
            msg, kw = _fill(cls, i1, i2, b, s, st, ost, phase)
            if via:
                with w.store.transaction(w.queue) as t:
                    t.push_message(msg)
            else:
                w.queue.push(msg)
            payloads = [r["payload"] for r in w.table("queue_messages")]
            symdb.CLOCK.now = symdb.CLOCK.now + 5000
            got = w.queue.poll_one()
            with hx.native():
                P.reached((cls.__name__, via, s[:3], st.name, str(ost), str(phase)))
            if got is None:
                return P.fail("C19/message/%s/pushed_message_not_delivered" % cls.__name__, {"via_transaction": via})
            if type(got) is not cls:
                return P.fail("C19/message/%s/delivered_as_%s" % (cls.__name__, type(got).__name__))
            for n, v in kw.items():
                g = getattr(got, n)
                same = (bool(g) == bool(v)) if isinstance(v, bool) or isinstance(g, bool) else (g == v)
                if not same or (v is None) != (g is None):
                    return P.fail("C19/message/%s/field_%s_differs" % (cls.__name__, n), {"via_transaction": via})
            # the two serialisers produce the same payload
            other = world2.SWorld(name="msg2", json_stub=True)
            try:
                msg2, _ = _fill(cls, i1, i2, b, s, st, ost, phase)
                if via:
                    other.queue.push(msg2)
                else:
                    with other.store.transaction(other.queue) as t2:
                        t2.push_message(msg2)
                p2 = other.table("queue_messages")[0]["payload"]
            finally:
                other.close()
            a, c = payloads[0].obj, p2.obj
            if a != c:
                return P.fail("C19/message/%s/serialisers_disagree" % cls.__name__, {"keys": sorted(set(a) ^ set(c))})
            return True
        finally:
            w.close()


def message_roundtrip(ck: int, via_txn: bool, i1: int, i2: int, b: bool, sk: int, phk: int) -> bool:
    """
    post: _
    """
    return _message(ck, via_txn, i1, i2, b, sk, 4, 0, phk, "message_roundtrip")


def message_status_roundtrip(via_txn: bool, stk: int, ostk: int) -> bool:
    """
    post: _
    """
    return _message(CLASSES.index("CompleteTask"), via_txn, 1, 2, True, 1, stk, ostk, 0, "message_status_roundtrip")


PLAN = [
    ("roundtrip_values", "quick", 280),
    ("roundtrip_enums_workflow", "quick", 280),
    ("roundtrip_enums_stage", "quick", 280),
    ("resave_roundtrip", "quick", 280),
    ("rollback_retry_roundtrip", "quick", 200),
    ("roundtrip_statuses", "thorough", 1500),
    ("message_roundtrip", "quick", 280),
    ("message_status_roundtrip", "quick", 280),
]

META = {
    "functions": ["src/stabilize/persistence/sqlite/store/workflow_crud.py:store/retrieve", "src/stabilize/persistence/sqlite/store/stage_ops.py:retrieve_stage/store_stage",
                  "src/stabilize/persistence/sqlite/helpers.py:insert_stage/upsert_task", "src/stabilize/persistence/sqlite/converters.py:execution_to_dict/row_to_execution/row_to_stage/row_to_task",
                  "src/stabilize/queue/sqlite/serialization.py:serialize_message/deserialize_message", "src/stabilize/persistence/sqlite/transaction.py:AtomicTransaction.push_message",
                  "src/stabilize/queue/sqlite/queue.py:push/poll_one", "src/stabilize/queue/messages.py:create_message_from_dict"],
    "bounds": ["workflow of 2 stages / 2 tasks; integer and boolean fields and dict leaves symbolic (unbounded ints); strings from {'', 'a', non-ASCII+quotes+backslash, 300 chars, and free text spelling an enum member name or a JSON literal}; every WorkflowStatus / JoinType / SplitType / SyntheticStageOwner / WorkflowType member (one dimension at a time + combinations listed in the harness)",
               "a stored stage saved again twice (plain store_stage and inside a transaction) with cleared / falsy / new values of every updatable stage and task field, every ordered pair, integer values symbolic",
               "a transaction that saves the stage and then fails (exception / failing second statement), rolled back, then the same unchanged object saved again",
               "every class of MESSAGE_TYPES, pushed directly and inside a transaction; CompleteTask with every status x original_status"],
    "stubs": ["json: dumps/loads replaced by a value-carrying stub with the contract loads(dumps(x)) == x (CPython's json, unicode escaping, floats are outside)",
              "SymDB instead of SQLite (validated differentially on every run)", "ids/clock stubs"],
    "assumptions": ["trigger and paused details of a workflow are not compared (not in the property's list)"],
}
