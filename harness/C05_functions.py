"""C05 (function level) - the two outcome functions against the statement of the property (S2).

``StageExecution.determine_status`` and ``CompleteWorkflowHandler._determine_final_status`` run
under full CrossHair tracing; every status is chosen by the solver.
"""
from __future__ import annotations

from vf import hx, stubs

stubs.install()

from stabilize.handlers.complete_workflow import CompleteWorkflowHandler  # noqa: E402
from stabilize.models.stage import StageExecution, SyntheticStageOwner  # noqa: E402
from stabilize.models.status import WorkflowStatus  # noqa: E402
from stabilize.models.task import TaskExecution  # noqa: E402
from stabilize.models.workflow import Workflow  # noqa: E402
from stabilize.queue.messages import CompleteWorkflow  # noqa: E402
from stabilize.resilience.config import HandlerConfig  # noqa: E402

ST = list(WorkflowStatus)
OKSET = {"SUCCEEDED", "SKIPPED", "FAILED_CONTINUE"}
FINAL = {"SUCCEEDED", "FAILED_CONTINUE", "TERMINAL", "CANCELED", "STOPPED", "SKIPPED"}
# statuses a *stage row* can hold: no stage is ever written REDIRECT or BUFFERED (task / workflow only)
STAGE_ST = [s for s in ST if s.name not in ("REDIRECT", "BUFFERED")]


def _determine(nb: int, nt: int, na: int, syms: list, name: str) -> bool:
    with hx.Path(name) as P:
        vals = [ST[hx.pick(s, 12)] for s in syms]
        parent = StageExecution(ref_id="p", name="p", status=WorkflowStatus.RUNNING)
        parent.tasks = [TaskExecution.create(name="t%d" % i, implementing_class="x") for i in range(nt)]
        stages = [parent]
        k = 0
        before, after = [], []
        for i in range(nb):
            s = StageExecution(ref_id="b%d" % i, name="b", status=vals[k], parent_stage_id=parent.id,
                               synthetic_stage_owner=SyntheticStageOwner.STAGE_BEFORE)
            k += 1
            before.append(s)
            stages.append(s)
        for t in parent.tasks:
            t.status = vals[k]
            k += 1
        for i in range(na):
            s = StageExecution(ref_id="a%d" % i, name="a", status=vals[k], parent_stage_id=parent.id,
                               synthetic_stage_owner=SyntheticStageOwner.STAGE_AFTER)
            k += 1
            after.append(s)
            stages.append(s)
        wf = Workflow(application="a", name="w", stages=stages)
        r = parent.determine_status()
        core = [s.status.name for s in before] + [t.status.name for t in parent.tasks]
        aft = [s.status.name for s in after]
        P.reached((tuple(core), tuple(aft), r.name))
        if r.name in OKSET:
            bad_core = [c for c in core if c not in OKSET]
            if bad_core:
                return P.fail("C05/determine_status/finished_with_unfinished_core", {"core": core, "after": aft, "result": r.name})
            # DESIGN C05.1: "no after-stage NOT_STARTED/RUNNING" (nor halted).  An after-stage in a
            # waiting status (PAUSED/SUSPENDED/BUFFERED/REDIRECT) is not asserted: the parent's
            # CompleteStage is only sent once its children have completed (observation O6 in DESIGN).
            bad_after = [a for a in aft if a in ("NOT_STARTED", "RUNNING", "TERMINAL", "STOPPED", "CANCELED")]
            if bad_after:
                return P.fail("C05/determine_status/finished_with_after_stage_%s" % bad_after[0], {"core": core, "after": aft, "result": r.name})
        if "TERMINAL" in core and r.name != "TERMINAL":
            return P.fail("C05/determine_status/terminal_core_not_terminal", {"core": core, "after": aft, "result": r.name})
        if r.name == "NOT_STARTED" and core:
            return P.fail("C05/determine_status/not_started_with_work", {"core": core, "result": r.name})
        del wf
        return True


def determine_t1(a: int) -> bool:
    """
    post: _
    """
    return _determine(0, 1, 0, [a], "determine_t1")


def determine_t2(a: int, b: int) -> bool:
    """
    post: _
    """
    return _determine(0, 2, 0, [a, b], "determine_t2")


def determine_b1t1(a: int, b: int) -> bool:
    """
    post: _
    """
    return _determine(1, 1, 0, [a, b], "determine_b1t1")


def determine_t1a1(a: int, b: int) -> bool:
    """
    post: _
    """
    return _determine(0, 1, 1, [a, b], "determine_t1a1")


def determine_b1t1a1(a: int, b: int, c: int) -> bool:
    """
    post: _
    """
    return _determine(1, 1, 1, [a, b, c], "determine_b1t1a1")


def determine_t2a1(a: int, b: int, c: int) -> bool:
    """
    post: _
    """
    return _determine(0, 2, 1, [a, b, c], "determine_t2a1")


def determine_t3(a: int, b: int, c: int) -> bool:
    """
    post: _
    """
    return _determine(0, 3, 0, [a, b, c], "determine_t3")


def determine_t1a2(a: int, b: int, c: int) -> bool:
    """
    post: _
    """
    return _determine(0, 1, 2, [a, b, c], "determine_t1a2")


class _Q:
    def __init__(self) -> None:
        self.pushed: list = []

    def push(self, message, delay=None, connection=None) -> None:
        self.pushed.append((message, delay))


def _final(syms: list, retry_count, max_retries: int, name: str) -> bool:
    with hx.Path(name) as P:
        vals = [STAGE_ST[hx.pick(s, len(STAGE_ST))] for s in syms]
        stages = [StageExecution(ref_id="s%d" % i, name="s", status=v) for i, v in enumerate(vals)]
        wf = Workflow(application="a", name="w", stages=stages)
        q = _Q()
        h = CompleteWorkflowHandler(q, None, handler_config=HandlerConfig(max_stage_wait_retries=max_retries))  # type: ignore[arg-type]
        msg = CompleteWorkflow(execution_type="PIPELINE", execution_id=wf.id, retry_count=retry_count)
        r = h._determine_final_status(wf, msg)
        names = [v.name for v in vals]
        P.reached((tuple(names), r.name if r is not None else None))
        info = {"stages": names, "result": r.name if r is not None else None}
        if r is None:
            if len(q.pushed) != 1 or not isinstance(q.pushed[0][0], CompleteWorkflow):
                return P.fail("C05/final_status/wait_without_retry_message", info)
            if q.pushed[0][0].retry_count != retry_count + 1:
                return P.fail("C05/final_status/retry_count_not_incremented", info)
            if retry_count >= max_retries:
                return P.fail("C05/final_status/waits_beyond_retry_budget", info)
            if all(n in FINAL for n in names):
                return P.fail("C05/final_status/waits_although_all_stages_final", info)
            return True
        if q.pushed:
            return P.fail("C05/final_status/decided_and_requeued", info)
        if r.name not in FINAL:
            return P.fail("C05/final_status/non_final_result", info)
        if "STOPPED" in names:
            return True  # failPipeline=false semantics are outside the claim (DESIGN C05 Outside)
        if r.name == "SUCCEEDED" and not all(n in OKSET for n in names):
            return P.fail("C05/final_status/succeeded_with_unfinished_or_failed_stage", info)
        if "TERMINAL" in names and r.name != "TERMINAL":
            return P.fail("C05/final_status/terminal_stage_not_reported_failed", info)
        if all(n in OKSET for n in names) and r.name != "SUCCEEDED":
            return P.fail("C05/final_status/all_fine_but_not_succeeded", info)
        return True


def final_1(a: int, rc: int) -> bool:
    """
    pre: 0 <= rc <= 4
    post: _
    """
    return _final([a], rc, 3, "final_1")


def final_2(a: int, b: int, rc: int) -> bool:
    """
    pre: 0 <= rc <= 4
    post: _
    """
    return _final([a, b], rc, 3, "final_2")


def final_3(a: int, b: int, c: int, rc: int) -> bool:
    """
    pre: 0 <= rc <= 4
    post: _
    """
    return _final([a, b, c], rc, 3, "final_3")


def final_4(a: int, b: int, c: int, d: int, rc: int) -> bool:
    """
    pre: 0 <= rc <= 4
    post: _
    """
    return _final([a, b, c, d], rc, 3, "final_4")


PLAN = [
    ("determine_t1", "quick", 60),
    ("determine_t2", "quick", 120),
    ("determine_b1t1", "quick", 120),
    ("determine_t1a1", "quick", 120),
    ("determine_b1t1a1", "thorough", 700),
    ("determine_t2a1", "thorough", 700),
    ("determine_t3", "thorough", 600),
    ("determine_t1a2", "thorough", 600),
    ("final_1", "quick", 60),
    ("final_2", "quick", 200),
    ("final_3", "quick", 280),
    ("final_4", "thorough", 1500),
]

META = {
    "functions": ["src/stabilize/models/stage/stage.py:StageExecution.determine_status/failure_status",
                  "src/stabilize/models/stage/navigation.py:before_stages/after_stages",
                  "src/stabilize/handlers/complete_workflow.py:CompleteWorkflowHandler._determine_final_status/_other_branches_incomplete"],
    "bounds": ["determine_status: <=1 before-stage, <=3 tasks, <=2 after-stages, 3 items at most, every one of the 12 statuses per item",
               "_determine_final_status: <=3 (thorough 4) top-level stages over the 10 statuses a stage row can hold, retry_count 0..4 (symbolic) with max_stage_wait_retries=3"],
    "stubs": ["ids: ULID() replaced by a counter", "queue replaced by a recording stub (only push is used by the function)"],
    "assumptions": ["default stage context (failPipeline true, continuePipelineOnFailure false)",
                    "a workflow with a STOPPED stage is outside (failPipeline=false semantics)"],
}
