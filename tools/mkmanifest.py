#!/usr/bin/env python3
"""Regenerates MANIFEST.json from the table below (python3 tools/mkmanifest.py)."""
import glob
import json
import os

ROOT = os.path.dirname(os.path.dirname(os.path.abspath(__file__)))

TECH = "bounded symbolic execution of the real Python code (CrossHair 0.0.110 / z3 5.1)"

CHECKS = {
    "C01": dict(
        text="Whole-engine runs on the real sqlite with the index of the commit at which the worker dies symbolic "
             "(thorough: a second symbolic crash index after the restart); z3 decides every comparison of the index, so "
             "'Confirmed over all paths' means every commit point of the workload was crashed exactly once. Oracle: the "
             "uninterrupted run (statuses, per-task contexts, executions <= reference + crashes, empty queue/DLQ).",
        note="Bounds: fixed workload family (<=5 stages, <=3 tasks/stage), crash only at durable commits (SQLite's "
             "atomic commit is trusted), one clock shared by Python and SQL (TZ=UTC), task executor stubbed to run "
             "inline, max_stage_wait_retries=6. The solver contributes the exhaustive, duplicate-free choice of crash "
             "indices; each path is a concrete run of the real engine.",
        design="3/C01",
    ),
    "C02": dict(
        text="One worker driven message by message; which deliverable message is handled next (and whether it is "
             "acknowledged) is a symbolic choice per choice point, decided by z3; exhaustive up to the stated depth. "
             "Oracle: FIFO exactly-once reference run + durable audit triggers (stage started once per arming, no task "
             "executed unless its durable row is RUNNING).",
        note="Bounds: depth D choice points, <=3 candidates per choice point, then natural order; workloads of the fixed "
             "family; clock/ids/executor stubs as C01.",
        design="3/C02",
    ),
    "C03": dict(
        text="Engine level: delivery schedules (symbolic choice per choice point, decided by z3) on workloads with AND / first-of / "
             "quorum joins and failing branches; at every task execution the join condition must hold on the durable upstream "
             "statuses of that instant (audit-trigger sequence numbers). Function level: evaluate_readiness executed "
             "symbolically over all upstream statuses, join types, thresholds and flags against an independent statement of the property. "
             "Also: crash at every commit followed by symbolic choices of what the restarted worker handles first; a backward jump from a "
             "parallel branch nested before every statement of the join's StartStage handler (S2 over SymDB, and thorough S1 race). "
             "A builder that plans a fan-in among its before-stages: the monitor reads the dependencies of plan-time stages from the stage table.",
        note="Bounds: <=3 upstreams, choice depth 6 (quick) / 10 (thorough), one pre-emption; OR-join activated-branch bookkeeping across split levels "
             "and MULTI_MERGE re-firing are outside. Stubs as C01.",
        design="3/C03",
    ),
    "C05": dict(
        text="Every final state reached by the delivery-schedule exploration (symbolic choices decided by z3, exhaustive to the depth "
             "bound) is checked with the quiescence predicate; determine_status and _determine_final_status are executed symbolically "
             "over all status combinations within the size bound. Workloads include failing branches next to running ones, early-firing joins "
             "and pre-declared synthetic before / after stages (parallel ones, failing ones, a failing sibling next to a running before-stage). "
             "Operator restart of any stage before every step (also after the workflow finished) and operator pause / unpause before every pair of steps, with the same predicate (a PAUSED workflow counts as explicitly waiting).",
        note="Bounds: workloads of the fixed family, choice depth 6/10, late-message holds, <=3 tasks and <=2 synthetic stages per stage in the function "
             "lemmas; failPipeline=false (STOPPED) semantics are outside. Stubs as C01.",
        design="3/C05",
    ),
    "C06": dict(
        text="AFTER UPDATE OF status triggers on the three state tables observe every durable status change in the schedule, crash and "
             "cancel explorations (control variables symbolic, decided by z3); each change must be in VALID_TRANSITIONS; only the re-arm "
             "(-> NOT_STARTED) written while a JumpToStage/RestartStage message is handled is exempt. Includes cancel + jump, cancel then "
             "signal on a suspended stage, pause / unpause, another worker committing while a task body runs. The table itself is checked "
             "symbolically over all 144 pairs. "
             "Operator restart of any stage before every step: the only completed -> not-completed changes are the re-arm and the re-opening of the workflow; parents with a failure policy whose before-stages finish at different times.",
        note="Bounds: workloads and depths as C01/C02; two-worker interleavings through the body-race and handler-race harnesses. Stubs as C01.",
        design="3/C06",
    ),
    "C10": dict(
        text="A recovery sweep is injected before every delivery step j (j symbolic, all values), also twice (j<=j2), with and without "
             "reordering; oracle = run without sweep (same final state, same executions). Crash half: for every crash commit, one sweep "
             "versus two sweeps in a row give the same final state and executions. Concurrent sweep: committed while the n-th task body runs; "
             "the whole sweep before the k-th SQL statement of a handler and one whole message handled before the k-th statement of a sweep "
             "(real SQLite file, j and k symbolic). "
             "Workloads include a deferred choice whose members have downstream stages (a stage cancelled at stage level while the workflow goes on), transient retries and failing branches.",
        note="Bounds: two workers, one pre-emption; workloads of the fixed family. Stubs as C01.",
        design="3/C10",
    ),
    "C14": dict(
        text="A task raising TransientError n times (n symbolic, 0..14, decoded by z3) with/without context_update at task position 1-3; "
             "oracle: executions = min(n,10)+[n<10], terminal exactly when n>=10, attempt i+1 sees the progress of attempt i; polling "
             "task keeps its saved context. A chain of n consecutive failures (n symbolic) through the real error path and the real queue round trip over SymDB; progress kept in "
             "a list mutated in place; two failing tasks in one stage (each its own budget). "
             "Recovery sweeps before every pair of steps of a task that always fails transiently: still at most the documented number of attempts.",
        note="Bounds: n<=14, <=3 tasks per stage, FIFO + 3 choice points of reordering (thorough). Backoff delays elapse on the virtual clock.",
        design="3/C14",
    ),
    "C15": dict(
        text="Loop shapes (self loop, 2-4-stage cycle, side branch + fan-in, forward jump) with the requested iteration count symbolic "
             "(0..13) and max_jumps in {default,0,1,3}: every re-armed stage runs once per iteration, TERMINAL exactly when the budget "
             "is spent, termination within the step bound; traversal functions executed symbolically on all DAGs with <=5 stages "
             "against a dominance oracle; ranking-function obligation discharged by z3; one step of the real JumpToStageHandler with symbolic "
             "_jump_count / _max_jumps over SymDB; shuffled delivery of the loops (quick: 4 symbolic choices). "
             "Operator pause / unpause before every pair of steps of a loop: the run ends finished, or paused in a state a resume can continue.",
        note="Bounds: <=5 stages, iterations <=13, 5 choice points of reordering (thorough). Stubs as C01.",
        design="3/C15",
    ),
    "C17": dict(
        text="Orchestrator.cancel injected before every delivery step j (symbolic) with up to 6 choice points of reordering (the cancel "
             "message itself can be overtaken); oracle from the ledger and the audit triggers: no Task.execute after the commit that "
             "set is_canceled, never-started stages end CANCELED/SKIPPED, every stage and the workflow reach a final status, CANCELED "
             "unless the work had in effect finished. Also: the worker killed at its k-th commit after the accepted cancel (k symbolic); "
             "the cancel's handlers raced at statement level against every other handler of the run (two workers, one pre-emption); stages "
             "carrying a failure policy (continue-on-failure / failPipeline=false) cancelled under reordering; one "
             "step of RunTaskHandler / CancelWorkflowHandler from every durable state over SymDB. "
             "Workloads with tasks built at plan time and builder-made before-stages are cancelled at every step as well.",
        note="Reading of 'in effect already finished': every stage complete or RUNNING with all task bodies already returned; a terminal "
             "failure produced before the cancel may win. In the statement-level race a task body entered by a RunTask handler that was "
             "already in flight when the other worker committed the cancel counts as started before it. Stubs as C01.",
        design="3/C17",
    ),
    "C18": dict(
        text="Signal (persistent / transient) sent before every delivery step j (symbolic) of the suspend workload, with reordering and "
             "un-acked redelivery; crash at every commit of the suspend and resume steps. Oracle: executions of the suspending task = "
             "1 + signals consumed, payload seen = payload sent, transient signal effective iff the stage was durably SUSPENDED when handled "
             "(in the statement-level race of the signal handler against the suspending RunTask: as of either reading the handler can have made). "
             "One step of SignalStageHandler / of a suspending task over SymDB with symbolic payloads. A second worker process with the default "
             "configuration taking over after the first died between a commit and its ack. "
             "A suspending stage behind and inside a jump loop; an operator restart of any stage after the signal: the signal is delivered to exactly one execution of the suspending task.",
        note="Bounds: one suspending stage, one or two signals, two workers with one pre-emption (three nested in the thorough tier).",
        design="3/C18",
    ),
    "C04": dict(
        text="The claim compare-and-swap and the whole StartStageHandler run symbolically over SymDB (row version a symbolic integer, "
             "durable status solver-chosen): two claimants in every interleaving the writer lock allows never both succeed; another "
             "worker's complete handler (duplicate StartStage, upstream completion updating the join bookkeeping) nested between the "
             "handler's read and its first write never plans the stage twice and never loses the start, for AND / first-of / quorum joins. "
             "Engine level on the real SQLite file: worker A's handler of the j-th message stopped before its k-th SQL statement while "
             "worker B handles another deliverable message completely (j, k, the two message picks symbolic) - every pair of handlers a run "
             "offers; two handlers on two real threads under a turn-passing scheduler with two symbolic hand-over points (A-B-A-B); "
             "oracles: one start and one StartTask per arming, join condition, legal transitions, quiescence, reference outcome.",
        note="Bounds: two workers with one pre-emption (a whole handler inside the other, at every statement boundary outside an open write "
             "transaction, or right after a commit), three workers nested (thorough), or two threads with the A-B-A-B hand-over pattern; longer patterns are outside. S2: one join stage with two upstreams; S1: diamond (quick), 10 more workloads (thorough). SymDB replaces SQLite in "
             "the S2 lemmas and is validated against sqlite3 on every run.",
        design="3/C04",
    ),
    "C07": dict(
        text="store_stage (plain and transactional, with/without expected phase), upsert_task, store.transaction() and "
             "retry_on_concurrency_error executed symbolically over SymDB: durable and caller versions are symbolic integers, so the "
             "verdict covers every pair of versions; two read-modify-write sequences in all four operation interleavings and with writer B's "
             "whole save before every statement of writer A's save (k symbolic).",
        note="Bounds: one stage, <=2 tasks, two writers, one pre-emption, one retry round; SymDB instead of SQLite (validated differentially).",
        design="3/C07",
    ),
    "C08": dict(
        text="The real SqliteQueue / DLQ code executed symbolically over SymDB: deliver_at, locked_until, attempts, max_attempts, "
             "version and the clock instants are symbolic integers; two pollers (nested and sequential); ack / reschedule / extend / "
             "move-to-DLQ / sweep / replay / push with the process dying at its n-th commit against a ghost ledger of identities; one message "
             "through solver-chosen operation sequences with symbolic time steps against a reference queue model. "
             "A message moved to the DLQ and replayed equals a freshly pushed one in every delivery-relevant column.",
        note="Bounds: <=2 queue rows + 1 DLQ row, 200 s time window at ms resolution, attempts <=12; queue max_attempts equals the row's "
             "(DESIGN O2); SymDB instead of SQLite (validated differentially).",
        design="3/C08",
    ),
    "C09": dict(
        text="BloomDeduplicator executed symbolically with the two digests of an id as symbolic integers (hashlib stubbed by an arbitrary "
             "function): no false negative after mark_seen / hydrate for every digest pair within the bound; the duplicate gate of "
             "_handle_message over all 64 combinations of its inputs; engine level: un-acked redelivery + worker restart / forced "
             "filter rotation before every delivery step, negative cache off and on, handler invocations counted per message id; authority "
             "observed while a hydration is in progress and after the id source failed part-way; completeness of the hydration id source around "
             "page-size multiples; a second worker process with the default configuration and its own filter taking the redelivery of a message "
             "whose handler committed on a worker that died before the ack.",
        note="Bounds: 15-bit / 44-bit filters, digests < 3*size in the quick tier; real MD5/SHA1 outside; negative cache with a second "
             "process writing processed_messages is documented unsupported and excluded.",
        design="3/C09",
    ),
    "C11": dict(
        text="acquire_claim executed symbolically over SymDB for every owner / owner-status / steal combination; two sibling stages "
             "racing with one handler nested inside the other's read-to-write window (mutex and deferred choice); retention sweep over "
             "all execution statuses x holder-stage statuses x claim kinds; engine level: delivery schedules of the mutex and choice workloads with the retention sweep "
             "injected before every step, audit triggers give the set of RUNNING stages per key after every commit. "
             "Liveness half: the holder keeps the mutex for a symbolic number of polls (below, at and beyond the waiter's wait budget); the waiter may give up only while the holder is unfinished.",
        note="Bounds: two siblings per group, two workers, schedule depth as C02. SymDB instead of SQLite (validated differentially).",
        design="3/C11",
    ),
    "C16": dict(
        text="get_merged_ancestor_outputs on every DAG with 4 stages and every choice of publishing stages (solver-chosen edge bits), "
             "_plan_stage's merge (own context / ancestors / reducers) and apply_output_reducers with symbolic branch values under every "
             "permutation, a re-planning of a re-armed stage after its ancestors published new values, all executed by CrossHair; engine level: "
             "under solver-chosen delivery schedules, late messages and crash points (jump loops included) every task execution must see each "
             "ancestor's latest o_<ancestor> value and no non-ancestor's.",
        note="Bounds: <=5 stages; only path-ordered scalar keys asserted; the SELECT feeding the merge is replaced by a row provider in the "
             "function lemma (the SQL text runs in the engine-level checks).",
        design="3/C16",
    ),
    "C20": dict(
        text="Workflow.create / validate_stage_graph / topological_sort on every 3-stage graph (duplicate refs, unknown refs, self "
             "edges, cycles) against a DFS oracle, and _eval_node / evaluate_expression on every depth-2 tree over 12 leaf kinds and "
             "every node class (plus 14 unsupported constructs), executed by CrossHair; the verdict on a graph after a valid graph with the same "
             "node and edge sets was accepted in the same process; the callers' handling of a failing condition; 17 classes "
             "of hostile text (nesting repeated up to 5000 times, lone surrogate, NUL, huge literals) at three call-stack depths. "
             "Subscripts at and beyond both ends of every container kind, also behind a unary minus.",
        note="Bounds: graphs of 3 stages (4 in the thorough tier), expression depth 2 (6 root shapes at depth 3 thorough); text limited "
             "to what ast.unparse of those trees produces plus the hostile classes; ast.parse (C) is exercised concretely, not symbolically.",
        design="3/C20",
    ),
    "C12": dict(
        text="Crash-free delivery schedules (symbolic choices) with event sourcing on: EventReplayer.rebuild_workflow_state versus the store "
             "after quiescence; rebuild as of every prefix length q of the event log (q symbolic) against folding exactly the events with "
             "sequence <= q; snapshot at every position p (symbolic) plus tail against the full replay; a cancel injected before every step, also followed by 4 symbolic "
             "reorderings; loop workloads included. "
             "Several rebuilds on one replayer / snapshot store (snapshot at p, full rebuild, prefix q >= p, full rebuild again) must not influence each other; a second live execution in the same database with symbolically interleaved messages: each log replays to its own execution only.",
        note="Bounds: workloads of the fixed family, 2-4 choice points, logs of <=60 events; entities whose last durable status was force-written "
             "by a jump are excluded as the property says (an entity re-run through the regular steps after a re-arm is included). The solver contributes the exhaustive choice of schedule / q / p; each path is a concrete run.",
        design="3/C12",
    ),
    "C13": dict(
        text="Crash at every durable commit (symbolic index) with the event store in the same database: on the crash state itself and after "
             "recovery, no completion event without a durable completion, no completion by the regular task/stage completion step without "
             "its event, subscriber notifications only for durable events, sequences unique and increasing; exception / optimistic-lock "
             "conflict injected inside the transaction of the handler at every delivery step (symbolic).",
        note="Bounds: workloads of the fixed family; events recorded outside a transaction by design (started, skipped, canceled, workflow "
             "events) are observed but not asserted. Stubs as C01.",
        design="3/C13",
    ),
    "C19": dict(
        text="store/retrieve/retrieve_stage and both message serialisers + poll_one executed symbolically over SymDB with a value-carrying "
             "json stub: integer and boolean fields and the leaves of context/outputs/payload are symbolic (unbounded), every enum member "
             "and every class of MESSAGE_TYPES is covered, strings are chosen from a small set including non-ASCII and a 300-char value; "
             "the two serialisers' payloads are compared; a stored stage saved again with cleared / falsy / new values; a save rolled back by a "
             "later fault of its transaction and retried with the same object; free text that spells an enum "
             "member or a JSON literal. "
             "On the real sqlite3 + json: sibling stages with byte-identical documents of six size classes (up to 70000 characters), a loaded copy edited and dropped / saved / rejected as stale, everything read back twice through retrieve_stage and retrieve.",
        note="CPython's json itself (unicode escaping, floats, huge values) is outside: the claim is that the code passes values to json "
             "untouched and returns what json gives. SymDB instead of SQLite (validated differentially).",
        design="3/C19",
    ),
}

NOT_YET = "check not built yet in this round (work in progress); see DESIGN.md section 3 for the planned obligations"


def main() -> None:
    props = [json.loads(l)["id"] for l in open(os.path.join(ROOT, "properties.jsonl"))]
    checks = []
    na = []
    for pid in props:
        have = glob.glob(os.path.join(ROOT, "harness", pid + "_*.py"))
        if pid in CHECKS and have:
            c = CHECKS[pid]
            checks.append({
                "property_id": pid,
                "quick_cmd": "./check %s --tier quick" % pid,
                "thorough_cmd": "./check %s --tier thorough" % pid,
                "evidence_file": "/verif/evidence/%s.json" % pid,
                "replay_cmd_template": "./check %s --replay {path}" % pid,
                "engine": "crosshair-z3",
                "level_claimed": {"category": "other", "text": c["text"], "design_ref": c["design"]},
                "level_note": c["note"],
                "technique": c.get("technique", TECH),
            })
        else:
            na.append({"property_id": pid, "reason": CHECKS.get(pid, {}).get("na", NOT_YET)})
    man = {
        "version": 1,
        "setup_cmd": "./setup.sh",
        "hooks": {
            "guard": "STABILIZE_VERIF",
            "enable": "none needed: all instrumentation is monkey-patching done by the harness process (vf/stubs.py, vf/native.py); "
                      "nothing in /repo reads the guard variable",
            "baseline_off_cmd": "cd /repo && /venv/bin/python -m pytest -q -p no:cacheprovider --timeout=900",
            "source_commits": [],
            "add_only": True,
        },
        "engines": [
            {"name": "crosshair-z3", "path": "/verif/vf", "serves_properties": [c["property_id"] for c in checks],
             "kind_free_text": "CrossHair symbolic execution of harness functions that call the real stabilize code; "
                               "S2 = symbolic data over SymDB / pure functions, S1 = native engine on sqlite with symbolic control variables"},
        ],
        "checks": checks,
        "not_applicable": na,
        "notes": "Exit codes of ./check: 0 held, 1 VIOLATION (replayed), 3 harness error. Known findings: known_findings.txt.",
    }
    with open(os.path.join(ROOT, "MANIFEST.json"), "w") as f:
        json.dump(man, f, indent=1)
    print("checks:", [c["property_id"] for c in checks], "n/a:", len(na))


if __name__ == "__main__":
    main()
