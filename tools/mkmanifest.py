#!/usr/bin/env python3
"""Regenerates MANIFEST.json from the table below (python3 tools/mkmanifest.py)."""
import glob
import json
import os

ROOT = os.path.dirname(os.path.dirname(os.path.abspath(__file__)))

TECH = "bounded symbolic execution of the real Python code (CrossHair 0.0.110 / z3 5.1)"

CHECKS = {
    "C01": dict(
        text="Whole-engine runs on the real sqlite with the index of the commit at which the worker dies symbolic "
             "(thorough: a second symbolic crash index after the restart); z3 decides every comparison of the index, so "
             "'Confirmed over all paths' means every commit point of the workload was crashed exactly once. Oracle: the "
             "uninterrupted run (statuses, per-task contexts, executions <= reference + crashes, empty queue/DLQ).",
        note="Bounds: fixed workload family (<=5 stages, <=3 tasks/stage), crash only at durable commits (SQLite's "
             "atomic commit is trusted), one clock shared by Python and SQL (TZ=UTC), task executor stubbed to run "
             "inline, max_stage_wait_retries=6. The solver contributes the exhaustive, duplicate-free choice of crash "
             "indices; each path is a concrete run of the real engine.",
        design="3/C01",
    ),
    "C02": dict(
        text="One worker driven message by message; which deliverable message is handled next (and whether it is "
             "acknowledged) is a symbolic choice per choice point, decided by z3; exhaustive up to the stated depth. "
             "Oracle: FIFO exactly-once reference run + durable audit triggers (stage started once per arming, no task "
             "executed unless its durable row is RUNNING).",
        note="Bounds: depth D choice points, <=3 candidates per choice point, then natural order; workloads of the fixed "
             "family; clock/ids/executor stubs as C01.",
        design="3/C02",
    ),
}

NOT_YET = "check not built yet in this round (work in progress); see DESIGN.md section 3 for the planned obligations"


def main() -> None:
    props = [json.loads(l)["id"] for l in open(os.path.join(ROOT, "properties.jsonl"))]
    checks = []
    na = []
    for pid in props:
        have = glob.glob(os.path.join(ROOT, "harness", pid + "_*.py"))
        if pid in CHECKS and have:
            c = CHECKS[pid]
            checks.append({
                "property_id": pid,
                "quick_cmd": "./check %s --tier quick" % pid,
                "thorough_cmd": "./check %s --tier thorough" % pid,
                "evidence_file": "/verif/evidence/%s.json" % pid,
                "replay_cmd_template": "./check %s --replay {path}" % pid,
                "engine": "crosshair-z3",
                "level_claimed": {"category": "other", "text": c["text"], "design_ref": c["design"]},
                "level_note": c["note"],
                "technique": c.get("technique", TECH),
            })
        else:
            na.append({"property_id": pid, "reason": CHECKS.get(pid, {}).get("na", NOT_YET)})
    man = {
        "version": 1,
        "setup_cmd": "./setup.sh",
        "hooks": {
            "guard": "STABILIZE_VERIF",
            "enable": "none needed: all instrumentation is monkey-patching done by the harness process (vf/stubs.py, vf/native.py); "
                      "nothing in /repo reads the guard variable",
            "baseline_off_cmd": "cd /repo && /venv/bin/python -m pytest -q -p no:cacheprovider --timeout=900",
            "source_commits": [],
            "add_only": True,
        },
        "engines": [
            {"name": "crosshair-z3", "path": "/verif/vf", "serves_properties": [c["property_id"] for c in checks],
             "kind_free_text": "CrossHair symbolic execution of harness functions that call the real stabilize code; "
                               "S2 = symbolic data over SymDB / pure functions, S1 = native engine on sqlite with symbolic control variables"},
        ],
        "checks": checks,
        "not_applicable": na,
        "notes": "Exit codes of ./check: 0 held, 1 VIOLATION (replayed), 3 harness error. Known findings: known_findings.txt.",
    }
    with open(os.path.join(ROOT, "MANIFEST.json"), "w") as f:
        json.dump(man, f, indent=1)
    print("checks:", [c["property_id"] for c in checks], "n/a:", len(na))


if __name__ == "__main__":
    main()
