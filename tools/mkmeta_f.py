import json, os, re, glob
ROOT = "/verif/seeded"
T = {
"C01f": ("C01", "the transient-retry budget is also charged with the queue's delivery counter, so a redelivered RunTask loses one attempt. Needs a task that succeeds on the last permitted attempt with its progress saved per retry, and a kill between the poll commit and the retry commit.", "C01 quick: crash_transient9; C14 quick: crash_transient9", "missed at first: retry chain exactly at the budget boundary (transient9) added to the crash explorations"),
"C02f": ("C02", "the stale CompleteTask(REDIRECT) guard uses truthiness, so jump_count == 0 is never stale. Needs the first iteration's CompleteTask delivered after the next iteration's StartTask.", "C02 quick: sched_selfloop2, late_selfloop2, win_selfloop2", "caught as it stood"),
"C03f": ("C03", "OR-join activated-branch bookkeeping made live and overwritten instead of merged. Needs two OR-splits feeding one OR-join.", "not detected", "OR-split / OR-join bookkeeping is stated as outside the claims (DESIGN section 3); no workload has split conditions"),
"C04f": ("C04", "RestartStage's processed mark moved out of the restart transaction. Needs a kill between the two commits, another worker re-running the stage while the dead worker's lock still holds, then the redelivery.", "C09 quick: restart_crash_chain2", "missed at first: operator restart + crash at every commit after it with the dead worker's lock lapsed or still held; C04's own check has no operator restart"),
"C05f": ("C05", "RestartStage re-opens the workflow only when its status is_halt. Needs a restart inside a SUCCEEDED workflow.", "C05 quick: quiet_restart_chain2, quiet_restart_diamond", "caught as it stood (restart explorations added in round five)"),
"C06f": ("C06", "CompleteWorkflow on a PAUSED workflow with nothing parked resumes in memory and writes PAUSED -> final in one UPDATE. Needs a pause at the tail of a run.", "C06 quick: trans_pause_resume_diamond_fail", "caught as it stood"),
"C07f": ("C07", "SignalStage's processed mark committed before the buffered-signal save, plus an already-processed guard: the losing save is never retried and the signal is dropped. Needs a task result committed between the signal handler's read and its save.", "C18 quick: race_signal_persistent", "flagged by C18's quick tier as it stood; C07's own lemmas do not see it (no write is overwritten)"),
"C10f": ("C10", "before_stages_incomplete looks at first_before_stages() only. Needs chained / fan-in before-stages made by a builder and a sweep between the links.", "C10 quick: sweep_builder_fanin", "missed at first: builder_fanin added to the sweep explorations"),
"C12f": ("C12", "stage events take workflow_id from the thread's event context and SkipStage no longer sets it. Needs two live executions interleaved in one database and a stage disabled by stageEnabled.", "C12 quick: replay_twin_skip_mid, replay_twin_diamond_fail", "missed at first: a second live execution in the same database (twin) with symbolic interleaving; workload with a disabled stage"),
"C13f": ("C13", "the event store bootstraps its schema per thread with executescript (implicit COMMIT) inside the joined transaction. Needs the first event append of a fresh worker thread to be a completion event, plus a fault or crash.", "C13 quick: event_fault_fresh_thread_tasks2/_diamond", "missed at first: the faulted step handled by a thread new to the database"),
"C17f": ("C17", "cancel_execution only updates rows in NOT_STARTED / BUFFERED / RUNNING. Needs a cancel handled while the workflow is PAUSED.", "C17 quick: cancel_paused_tasks2, cancel_paused_rev_tasks2", "missed at first: pause, then unpause + cancel with reorderings; flag durability checked"),
"C18f": ("C18", "ResumeStage pops _signal_name / _signal_data when it re-arms the parked task. Needs suspend, pause, signal consumed, task parked, unpause.", "C18 quick: signal_while_paused", "missed at first: pause + persistent signal before every step, unpause once the run is quiet"),
}
for sid, (prop, needs, caught, note) in T.items():
    d = os.path.join(ROOT, sid)
    log = open(os.path.join(d, "eval.log")).read() if os.path.exists(os.path.join(d, "eval.log")) else ""
    exits = re.findall(r"^exit=(\d+)", log, re.M)
    tests = re.findall(r"^\d+ passed.*$|^\d+ failed.*$", log, re.M)
    viol = sorted(set(re.findall(r"VIOLATION property=(C\d\d)", log)))
    meta = {
        "id": sid, "property": prop, "breaks": prop, "needs_to_manifest": needs, "caught_by": caught, "history": note,
        "what_was_run": ["tools/seed_eval.sh %s seeded/%s <properties>  (fresh scratch worktree of /repo HEAD: demo without change, patch applied, demo again, full test-suite with the change, then ./check <property> --tier quick with VF_REPO pointing at the worktree; output in eval.log)" % (sid, sid)],
        "demo_without_change_exit": int(exits[0]) if len(exits) > 0 else None,
        "demo_with_change_exit": int(exits[1]) if len(exits) > 1 else None,
        "tests_with_change": (tests[0] if tests else None),
        "failed_tests_rerun_alone": (re.findall(r"== failed tests re-run alone \(with change\)\n(.*)", log) or [None])[0],
        "quick_checks_reporting_a_violation": viol,
        "source": "independent sub-agent given only the property text, its own worktree and one-line descriptions of the five earlier seeds of the property, plus a hint list of rarely combined features to avoid",
    }
    json.dump(meta, open(os.path.join(d, "meta.json"), "w"), indent=1)
    print(sid, meta["demo_without_change_exit"], meta["demo_with_change_exit"], meta["tests_with_change"], viol)
