"""Print quick/thorough obligation counts per property (from the harness PLANs) and patch the
table of DESIGN.md section 3 with them:  python tools/count_obligations.py [--patch]"""
import collections
import glob
import importlib
import os
import re
import sys

ROOT = os.path.dirname(os.path.dirname(os.path.abspath(__file__)))
sys.path.insert(0, ROOT)
cnt = collections.defaultdict(lambda: [0, 0])
for p in sorted(glob.glob(os.path.join(ROOT, "harness", "C*_*.py"))):
    pid = os.path.basename(p)[:3]
    m = importlib.import_module("harness." + os.path.basename(p)[:-3])
    for e in m.PLAN:
        cnt[pid][0 if e[1] == "quick" else 1] += 1
for k in sorted(cnt):
    print(k, cnt[k][0], cnt[k][1])
print("total", sum(v[0] for v in cnt.values()), sum(v[1] for v in cnt.values()))
if "--patch" in sys.argv:
    d = os.path.join(ROOT, "DESIGN.md")
    s = open(d).read()
    for k, (q, t) in cnt.items():
        s = re.sub(r"\| %s \| \d+ / \d+ \|" % k, "| %s | %d / %d |" % (k, q, t), s, count=1)
    open(d, "w").write(s)
