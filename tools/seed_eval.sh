#!/bin/sh
# tools/seed_eval.sh <seed-id> <worktree> <property> [more properties...]
# Confirms a seeded mutation (tests green with it, demo fails with / passes without) and runs the
# quick checks of the named properties against the worktree (VF_REPO), never touching /repo.
set -u
ID=$1; WT=$2; shift 2
cd /verif
mkdir -p seeded/$ID
cp $WT/patch.diff seeded/$ID/patch.diff
cp $WT/demo_*.py seeded/$ID/ 2>/dev/null
OUT=seeded/$ID/eval.log
: > $OUT
echo "== demo with change" >> $OUT
( cd $WT && PYTHONPATH=$WT/src timeout 600 /venv/bin/python demo_*.py >> /verif/$OUT 2>&1; echo "exit=$?" >> /verif/$OUT )
echo "== demo without change" >> $OUT
( cd $WT && git stash -q -- src && PYTHONPATH=$WT/src timeout 600 /venv/bin/python demo_*.py >> /verif/$OUT 2>&1; echo "exit=$?" >> /verif/$OUT; git stash pop -q )
echo "== test-suite with change" >> $OUT
( cd $WT && PYTHONPATH=$WT/src timeout 1500 /venv/bin/python -m pytest -q -p no:cacheprovider -n 6 -k "not postgres" tests 2>&1 | tail -3 >> /verif/$OUT )
for P in "$@"; do
  echo "== check $P (quick) against the worktree" >> $OUT
  VF_REPO=$WT VF_EVID=/tmp/vf_evid_$ID ./check $P --tier quick 2>&1 | grep -E "VIOLATION|KNOWN|HARNESS|tier=|key=" | cut -c1-600 >> $OUT
done
cat $OUT
