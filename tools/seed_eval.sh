#!/bin/sh
# tools/seed_eval.sh <seed-id> <dir holding patch.diff + demo_*.py> <property> [more properties...]
# Confirms a seeded mutation in a fresh scratch worktree (demo passes without / fails with the change,
# test-suite green with it) and runs the quick checks of the named properties against that worktree
# (VF_REPO), never touching /repo.  No git stash (stashes are shared between worktrees).
set -u
ID=$1; SRC=$2; shift 2
cd /verif
mkdir -p seeded/$ID
[ "$SRC" != "seeded/$ID" ] && cp $SRC/patch.diff seeded/$ID/patch.diff && cp $SRC/demo_*.py seeded/$ID/ 2>/dev/null
EV=/tmp/ev_$ID
git -C /repo worktree remove --force $EV >/dev/null 2>&1; rm -rf $EV
git -C /repo worktree add -q --detach $EV HEAD || exit 3
cp seeded/$ID/demo_*.py $EV/
OUT=/verif/seeded/$ID/eval.log
: > $OUT
echo "== demo without change" >> $OUT
( cd $EV && PYTHONPATH=$EV/src timeout 900 /venv/bin/python demo_*.py 2>&1 | tail -4 >> $OUT; )
( cd $EV && PYTHONPATH=$EV/src timeout 900 /venv/bin/python demo_*.py >/dev/null 2>&1; echo "exit=$?" >> $OUT )
( cd $EV && git apply /verif/seeded/$ID/patch.diff ) || { echo "patch does not apply" >> $OUT; exit 3; }
echo "== demo with change" >> $OUT
( cd $EV && PYTHONPATH=$EV/src timeout 900 /venv/bin/python demo_*.py 2>&1 | tail -4 >> $OUT; )
( cd $EV && PYTHONPATH=$EV/src timeout 900 /venv/bin/python demo_*.py >/dev/null 2>&1; echo "exit=$?" >> $OUT )
echo "== test-suite with change" >> $OUT
( cd $EV && PYTHONPATH=$EV/src timeout 1800 /venv/bin/python -m pytest -q -p no:cacheprovider -n 6 -k "not postgres" tests 2>&1 | tail -8 > /tmp/ts_$ID.txt )
grep -E "^FAILED|passed|failed" /tmp/ts_$ID.txt >> $OUT
FAILED_IDS=$(grep -E "^FAILED" /tmp/ts_$ID.txt | sed 's/^FAILED \([^ ]*\).*/\1/')
if [ -n "$FAILED_IDS" ]; then
  # timing-sensitive tests fail under load on the unchanged tree too: re-run the failed ones alone
  echo "== failed tests re-run alone (with change)" >> $OUT
  ( cd $EV && PYTHONPATH=$EV/src timeout 900 /venv/bin/python -m pytest -q -p no:cacheprovider $FAILED_IDS 2>&1 | tail -1 >> $OUT )
fi
rm -f /tmp/ts_$ID.txt
for P in "$@"; do
  echo "== check $P (${SEED_TIER:-quick}) against the worktree" >> $OUT
  VF_REPO=$EV VF_EVID=/tmp/vf_evid_$ID ./check $P --tier ${SEED_TIER:-quick} 2>&1 | grep -E "VIOLATION|KNOWN|HARNESS|tier=|key=" | cut -c1-500 >> $OUT
done
git -C /repo worktree remove --force $EV >/dev/null 2>&1
rm -rf /tmp/vf_evid_$ID
cat $OUT
