#!/bin/sh
# tools/seed_quick.sh <seed-id> <property> [--only regex]   quick triage: check only (no demo, no test-suite), scratch worktree
ID=$1; P=$2; shift 2
W=/tmp/sq_${ID}_$$
git -C /repo worktree remove --force $W >/dev/null 2>&1
git -C /repo worktree add -q --detach $W HEAD || exit 3
git -C $W apply /verif/seeded/$ID/patch.diff || { echo "patch does not apply"; git -C /repo worktree remove --force $W; exit 3; }
cd /verif && VF_REPO=$W VF_EVID=/tmp/sq_evid_${ID}_$$ ./check $P "$@" 2>&1 | grep -E "VIOLATION|KNOWN|HARNESS|tier=|key=" | cut -c1-400
git -C /repo worktree remove --force $W >/dev/null 2>&1; rm -rf /tmp/sq_evid_${ID}_$$
