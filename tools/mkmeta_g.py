import json, os, re, glob
ROOT = "/verif/seeded"
T = {
"C08g": ("C08", "extend_lock stamps the lock with SQL strftime built from timedelta.seconds: the days of an extension >= 24 h are dropped. Needs a lock / extension of at least one day and a second poller.", "fails closed (harness error, exit 3), no violation", "the SQL shape (strftime) is outside SymDB: the differential validation stops the SymDB obligations of C08 with a harness error; not strengthened (extensions in the lemmas are below 200 s)"),
"C09g": ("C09", "mark_seen stops setting bits beyond the design capacity while the filter keeps its authority.", "C09 quick: bloom / dedup_gate lemmas", "caught as it stood"),
"C11g": ("C11", "RestartStage releases the stage's claims. Needs both members of a decided choice group restarted, the former loser's StartStage first.", "C11 quick: choice_restart", "missed at first: restart of both members (either order) added to choice_restart"),
"C14g": ("C14", "_handle_transient_retry catches the exhausted ConcurrencyError and pushes the retry without the progress. Needs every optimistic write of the error path to conflict.", "C14 quick: retry_under_contention", "missed at first: S2 lemma with a writer bumping the version after each of the first m reads"),
"C15g": ("C15", "at the jump limit the source stage gets failure_status() instead of TERMINAL. Needs a looping stage with continuePipelineOnFailure / failPipeline=false that reaches max_jumps.", "C15 quick: loop_selfloop_cont_max3, loop_selfloop_stop_max3", "missed at first: loop shapes whose looping stage carries a failure policy"),
"C16g": ("C16", "reducer inputs filtered by status.is_successful.", "C16 quick: plan_merge", "caught as it stood"),
"C19g": ("C19", "reschedule() rewrites the payload with json_patch, which deletes None-valued keys. Needs a handler error, a reschedule and a second delivery of a message whose dict field holds None.", "C19 quick: message_redelivery_roundtrip", "missed at first (the S2 part fails closed): S1 lemma on the real sqlite3 added"),
"C20g": ("C20", "evaluate_expression fast path int(expr) for expr.isdigit(). Needs a text of Unicode digit characters or more than 4300 digits.", "C20 quick: expr_hostile_text (alldigits, unidigits)", "missed at first: all-digit text classes added"),
}
for sid, (prop, needs, caught, note) in T.items():
    d = os.path.join(ROOT, sid)
    log = open(os.path.join(d, "eval.log")).read() if os.path.exists(os.path.join(d, "eval.log")) else ""
    exits = re.findall(r"^exit=(\d+)", log, re.M)
    tests = re.findall(r"^\d+ passed.*$|^\d+ failed.*$", log, re.M)
    viol = sorted(set(re.findall(r"VIOLATION property=(C\d\d)", log)))
    meta = {
        "id": sid, "property": prop, "breaks": prop, "needs_to_manifest": needs, "caught_by": caught, "history": note,
        "what_was_run": ["tools/seed_eval.sh %s seeded/%s <properties>  (fresh scratch worktree of /repo HEAD: demo without change, patch applied, demo again, full test-suite with the change, then ./check <property> --tier quick with VF_REPO pointing at the worktree; output in eval.log)" % (sid, sid)],
        "demo_without_change_exit": int(exits[0]) if len(exits) > 0 else None,
        "demo_with_change_exit": int(exits[1]) if len(exits) > 1 else None,
        "tests_with_change": (tests[0] if tests else None),
        "failed_tests_rerun_alone": (re.findall(r"== failed tests re-run alone \(with change\)\n(.*)", log) or [None])[0],
        "quick_checks_reporting_a_violation": viol,
        "source": "independent sub-agent given only the property text, its own worktree and one-line descriptions of the five earlier seeds of the property, plus a hint list of rarely combined features to avoid",
    }
    json.dump(meta, open(os.path.join(d, "meta.json"), "w"), indent=1)
    print(sid, meta["demo_without_change_exit"], meta["demo_with_change_exit"], meta["tests_with_change"], viol)
