import json, os, re, glob
ROOT = "/verif/seeded"
T = {
"C01e": ("C01", "recovery pushes StartTask for the next NOT_STARTED task while an earlier task of the stage is RUNNING and its message is still queued. Needs a multi-task stage whose non-last task polls (or waits for a retry), a kill and a recovery sweep.", "C01 quick: crash_poll2_t2", "flagged by the thorough tier as it stood (poll2_t2 was thorough-only in C01); moved into the quick tier"),
"C02e": ("C02", "ContinueParentStage requests 'the first task still NOT_STARTED' instead of the first task. Needs a parent with 2 tasks and 2 parallel before-stages, StartTask(t1) delivered between the two ContinueParentStage messages.", "C02 quick: late_before2_t2", "missed at first: workload before2_t2; the StartTask-once monitor allows one request per before-stage for the first task only"),
"C03e": ("C03", "StartStage skips the upstream lookup for synthetic stages. Needs a fan-in inside a builder's before-stage graph (fast || slow -> merge).", "C03 quick: deps_builder_fanin, deps_late_builder_fanin", "missed at first: builder with a fan-in among plan-time before-stages; the monitor reads plan-time dependencies from the stage table"),
"C04e": ("C04", "execute_atomic lets RetryLimitReached escape; is_transient matches 'retry' in the class name, the RunTask is re-queued and the body runs twice. Needs a version bump of the running stage between the result handler's re-read and its commit.", "C04 quick: race_hold_completion_disc2_15_17", "caught as it stood"),
"C05e": ("C05", "ResumeStage re-dispatches stage.first_task() instead of the parked task. Needs an operator pause while a non-first task is in flight, then unpause.", "C05 quick: quiet_pause_resume_tasks3 (and _tasks2)", "missed at first: operator pause / unpause before every pair of steps with the quiescence oracle"),
"C06e": ("C06", "ContinueParentStage closes the parent with reset_stage_to_terminal (no transition check). Needs parallel before-stages finishing at different times, the later one failing, and a failure policy on the parent: FAILED_CONTINUE / STOPPED -> TERMINAL.", "C06 quick: trans_before2_latefail_cont, trans_before2_latefail_stop", "missed at first: those workloads"),
"C07e": ("C07", "the expected_phase save drops the version predicate (same change as C18c).", "C07 quick: txn_store_stage_cas, two_writers_nested, join_race_disc2_9_17", "caught as it stood"),
"C08e": ("C08", "replay_dlq inserts an explicit max_attempts read from the DLQ row, which has no such column: NULL. Needs a second trip to the attempt limit after a replay.", "C08 quick: replay_like_fresh_push", "missed at first, and the first evaluation was a harness error (dict(row) under CrossHair's dict shim on a SymDB row); lemma added, SymDB rows register as Mapping"),
"C09e": ("C09", "lock-lapse redeliveries do not count an attempt, and attempts == 1 skips the processed lookup. Needs a worker that commits and dies before the ack.", "C09 quick: redeliver_* and two_workers_default_config_tasks2 (9 obligations)", "caught as it stood"),
"C10e": ("C10", "recovery's _can_start treats every complete upstream as satisfied. Needs a stage behind a stage cancelled at stage level (loser of a deferred choice) and a sweep while the workflow goes on.", "C10 quick: sweep_choice_down", "missed at first: workload choice_down"),
"C11e": ("C11", "one wait budget for all StartStage re-queues; READY is not honoured once it is spent. Needs a mutex held for max_stage_wait_retries polls of the waiter.", "C11 quick: mutex_hold", "missed at first: holder keeps the mutex for a symbolic number of polls"),
"C12e": ("C12", "SnapshotStore caches the latest snapshot object and the replayer mutates it in place. Needs several rebuilds on one replayer: a full rebuild, then as_of_sequence >= the snapshot.", "C12 quick: replay_snapshot_then_prefix_diamond/_selfloop2", "missed at first: repeated rebuilds on one replayer / snapshot store"),
"C13e": ("C13", "_update_join_tracking runs inside the completion transaction; its plain store_stage commits the stage's status before the event. Needs a DISCRIMINATOR / N_OF_M downstream and a fault or crash.", "C13 quick: event_fault_disc2, event_fault_nofm23, event_crash_disc2, event_crash_nofm23", "missed by the quick tier at first (join workloads were thorough-only); moved into the quick tier"),
"C14e": ("C14", "has_pending_message_for_task ignores messages that are not yet due. Needs a recovery sweep while a retry waits for its backoff: a second retry chain with a fresh budget.", "C14 quick: retry_budget_sweeps; C10 quick: sweep_transient2", "missed by C14's quick tier at first: sweeps before every pair of steps of an always-failing task added (C10's sweep_transient2 moved into its quick tier)"),
"C15e": ("C15", "a JumpToStage handled while the workflow is PAUSED is dropped. Needs an operator pause between a task's jump_to and the JumpToStage.", "C15 quick: loop_pause_resume_selfloop2, loop_pause_resume_backjump1", "missed at first (operator pause is outside C15's quantifier): pause / unpause before every pair of steps of a loop; a PAUSED end state is accepted only if it can be resumed (a stage parked, or nothing in flight, or messages still queued)"),
"C16e": ("C16", "recovery sends StartTask instead of StartStage for a claimed-but-unplanned stage whose first task has stage_start. Needs a crash between claim and plan, then a sweep: the task sees an un-hydrated context.", "C16 quick: flow_crash_backjump1", "caught as it stood"),
"C17e": ("C17", "CancelStage returns early when all(t.status.is_complete for t in stage.tasks): vacuously true for a stage whose tasks are built at plan time.", "C17 quick: cancel_diamond_built", "missed at first: workloads with plan-time tasks added to the cancel explorations"),
"C18e": ("C18", "reset_stage_for_retry also pops _buffered_signals. Needs a persistent signal buffered on a stage that a jump (or an operator restart) then re-arms.", "C18 quick: signal_loop_suspend, signal_then_restart", "missed at first: suspending stage behind / inside a loop and operator restart after a signal (exposed the genuine defect F17)"),
"C19e": ("C19", "lru_cache'd json.loads for stored documents of >= 1024 characters returns one shared mutable object. Needs a large document and a loaded copy edited in memory before the row is read again.", "C19 quick: stored_is_read_back", "missed at first (S2 lemmas replace json; largest string 300 chars): lemma on the real sqlite3 + json with six size classes"),
"C20e": ("C20", "list subscript guard replaced by key < len(value): a negative index beyond the start raises IndexError.", "C20 quick: expr_subscript_index", "missed at first: subscripts at and beyond both ends of every container kind, also behind a unary minus"),
}
for sid, (prop, needs, caught, note) in T.items():
    d = os.path.join(ROOT, sid)
    log = open(os.path.join(d, "eval.log")).read() if os.path.exists(os.path.join(d, "eval.log")) else ""
    exits = re.findall(r"^exit=(\d+)", log, re.M)
    tests = re.findall(r"^\d+ passed.*$|^\d+ failed.*$", log, re.M)
    viol = sorted(set(re.findall(r"VIOLATION property=(C\d\d)", log)))
    meta = {
        "id": sid, "property": prop, "breaks": prop, "needs_to_manifest": needs, "caught_by": caught, "history": note,
        "what_was_run": ["tools/seed_eval.sh %s seeded/%s <properties>  (fresh scratch worktree of /repo HEAD: demo without change, patch applied, demo again, full test-suite with the change, then ./check <property> --tier quick with VF_REPO pointing at the worktree; output in eval.log)" % (sid, sid)],
        "demo_without_change_exit": int(exits[0]) if len(exits) > 0 else None,
        "demo_with_change_exit": int(exits[1]) if len(exits) > 1 else None,
        "tests_with_change": (tests[0] if tests else None),
        "failed_tests_rerun_alone": (re.findall(r"== failed tests re-run alone \(with change\)\n(.*)", log) or [None])[0],
        "quick_checks_reporting_a_violation": viol,
        "source": "independent sub-agent given only the property text, its own worktree and one-line descriptions of the four earlier seeds of the property, plus a hint list of rarely combined features to avoid",
    }
    json.dump(meta, open(os.path.join(d, "meta.json"), "w"), indent=1)
    print(sid, meta["demo_without_change_exit"], meta["demo_with_change_exit"], meta["tests_with_change"], viol)
